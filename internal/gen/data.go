// Package gen produces the inputs of the workloads: data families, write
// partitions, configurations.  Everything is a pure function of a prng.R.
package gen

import (
	"strconv"
	"strings"

	"verif/internal/prng"
	"verif/internal/ref"
)

// Families of input data.
var Families = []string{
	"empty", "one", "zeros", "zeroprefix", "run", "random", "xx", "xgapx",
	"text", "lowent", "periodic", "altseg", "ramp", "nearrep", "sandwich", "maxrun", "randzeros", "sandwich2", "noisyrep", "shortruns", "ascwords", "descwords",
}

// Special families used by dedicated cases only (they need particular sizes or dictionaries).
var SpecialFamilies = []string{"farmarks", "farsurprise"}

var words = []string{"the", "quick", "brown", "fox", "jumps", "over", "lazy", "dog", "compression", "dictionary",
	"stream", "block", "header", "index", "lzma", "range", "coder", "and", "of", "to", "in", "a", "is", "that",
	"\n", ". ", ", ", "0", "1", "2022", "xz", "match", "literal", "state", "probability"}

// Data returns n bytes of the named family.
func Data(r *prng.R, family string, n int) []byte {
	if n < 0 {
		n = 0
	}
	b := make([]byte, n)
	if strings.HasPrefix(family, "chunkedge:") {
		// a 24-byte marker, zeros up to 6 MiB, then noise with one copy of the marker at the
		// given offset of the noise: in a stream of literals that single far, long match is
		// about as expensive as an LZMA operation gets; sweeping the offset over the place where
		// the first chunk of noise reaches the 64 KiB compressed limit puts it at every
		// position relative to the margin the writer keeps there
		o, _ := strconv.Atoi(family[len("chunkedge:"):])
		if n < 6<<20+o+24 {
			r.Bytes(b)
			return b
		}
		m := make([]byte, 24)
		r.Bytes(m)
		copy(b, m)
		r.Bytes(b[6<<20:])
		copy(b[6<<20+o:], m)
		return b
	}
	if strings.HasPrefix(family, "carry:") {
		// "carry:<lc><lp><pb>:<lead>:<runlen>:<c|n>:<alphabet>": content built against the
		// arithmetic of the range coder (see ref.GenCarryData): as a sequence of literals under
		// the given properties it drives the coder into runs of runlen held-back bytes that
		// end with (c) or without (n) a carry.  n is ignored.
		f := strings.Split(family, ":")
		if len(f) == 6 && len(f[1]) == 3 {
			lead, _ := strconv.Atoi(f[2])
			runLen, _ := strconv.Atoi(f[3])
			alpha, _ := strconv.Atoi(f[5])
			p := ref.Props{LC: int(f[1][0] - '0'), LP: int(f[1][1] - '0'), PB: int(f[1][2] - '0')}
			d, _ := ref.GenCarryDataAlpha(r, p, lead, 2, runLen, 20+runLen/2, f[4] == "c", alpha)
			return d
		}
	}
	if strings.HasPrefix(family, "thinrep:") {
		// noise with k eight-byte repeats (1000 bytes back) spread evenly: data whose LZMA
		// encoding is within a fraction of a per cent of its own size, on either side - the
		// place where a writer decides between a compressed and an uncompressed chunk
		k, _ := strconv.Atoi(family[len("thinrep:"):])
		r.Bytes(b)
		for j := 0; j < k; j++ {
			pos := 1100 + j*(n-1200)/(k+1)
			if pos+8 <= n && pos >= 1000 {
				copy(b[pos:pos+8], b[pos-1000:pos-992])
			}
		}
		return b
	}
	switch family {
	case "empty":
		return []byte{}
	case "one":
		return []byte{byte(r.U64())}
	case "zeros":
	case "zeroprefix":
		k := r.Range(1, max(1, n/2))
		if k > n {
			k = n
		}
		if r.Bool() {
			r.Bytes(b[k:])
		} else {
			copy(b[k:], text(r, n-k))
		}
	case "run":
		v := byte(r.Pick(0, 1, 0x7f, 0xff, r.Intn(256)))
		for i := range b {
			b[i] = v
		}
	case "random":
		r.Bytes(b)
	case "xx":
		h := n / 2
		r.Bytes(b[:h])
		copy(b[h:], b[:h])
		if n > 2*h {
			b[n-1] = byte(r.U64())
		}
	case "xgapx":
		x := n / 3
		r.Bytes(b[:x])
		copy(b[x:], text(r, n-2*x))
		copy(b[n-x:], b[:x])
	case "text":
		copy(b, text(r, n))
	case "lowent":
		// small alphabet with many zero bytes: trigger for short-distance matches
		al := r.Range(2, 4)
		for i := range b {
			if r.Chance(2, 3) {
				b[i] = byte(r.Intn(al))
			}
		}
	case "periodic":
		p := r.Pick(1, 2, 3, 4, 5, 7, 8, 15, 16, 17, 255, 256, 257, 273, 274, 4095, 4096, 4097)
		if p > n && n > 0 {
			p = n
		}
		if p > 0 {
			r.Bytes(b[:min(p, n)])
			for i := p; i < n; i++ {
				b[i] = b[i-p]
			}
		}
	case "altseg":
		for i := 0; i < n; {
			l := r.Range(1, max(1, n/3))
			if i+l > n {
				l = n - i
			}
			switch r.Intn(3) {
			case 0:
				r.Bytes(b[i : i+l])
			case 1:
				copy(b[i:i+l], text(r, l))
			default:
				v := byte(r.U64())
				for j := i; j < i+l; j++ {
					b[j] = v
				}
			}
			i += l
		}
	case "sandwich":
		// compressible | incompressible (half of the data) | compressible: with enough
		// data the LZMA2 writer emits compressed, raw, compressed chunks in that order
		q := n / 4
		copy(b[:q], text(r, q))
		r.Bytes(b[q : n-q])
		copy(b[n-q:], text(r, q))
	case "sandwich2":
		// as sandwich, but the incompressible middle contains sparse repeats of every length
		// class (2..9, 10..17, 18..273) and repeated distances: the encoding attempt that the
		// LZMA2 writer discards when it stores the chunk raw has then touched every part of
		// the coder state (all length and distance coders, rep distances), and the text that
		// follows uses all of them again
		q := n / 4
		copy(b[:q], text(r, q))
		noisyRep(r, b[q:n-q])
		copy(b[n-q:], text(r, q))
	case "noisyrep":
		noisyRep(r, b)
	case "ascwords", "descwords":
		// 4-byte big-endian words in ascending / descending order (with a random start and a
		// small stride): every new word is a new extreme for a matcher that keeps its 4-byte
		// words in a search tree, which degenerates into a list
		v := uint32(r.U64())
		st := uint32(r.Range(1, 3))
		for i := 0; i+4 <= n; i += 4 {
			b[i], b[i+1], b[i+2], b[i+3] = byte(v>>24), byte(v>>16), byte(v>>8), byte(v)
			if family == "ascwords" {
				v += st
			} else {
				v -= st
			}
		}
	case "shortruns":
		// noise interrupted every few dozen bytes by a short run of one byte value or of a
		// short period (2..40 bytes, shorter than the 273-byte look-ahead): overlapping matches
		// that end inside the look-ahead, at every position of the encoder's ring buffer once
		// the input is a few times longer than DictCap+BufSize
		r.Bytes(b)
		for i := 0; i < n; {
			i += r.Range(3, 60)
			l := r.Range(5, 60)
			p := r.Pick(1, 1, 1, 2, 3, 7)
			for j := p; j < l && i+j < n; j++ {
				b[i+j] = b[i+j-p]
			}
			i += l
		}
	case "farmarks":
		// zeros with pairs of identical 24-byte markers whose distance is just above every
		// power of two and every 3*2^k that fits: a writer with a dictionary of at least n
		// bytes has to code one match in every distance slot (including the largest ones)
		j := 0
		for k := uint(8); ; k++ {
			for _, d := range []int{1<<k + 1000, 3<<(k-1) + 1000} {
				a := 64 * j
				if a+d+24 > n || a+24 > 1<<18 {
					continue
				}
				m := make([]byte, 24)
				r.Bytes(m)
				copy(b[a:], m)
				copy(b[a+d:], m)
				j++
			}
			if 1<<k > n {
				break
			}
		}
	case "farsurprise":
		// 4096 random markers, 4.5 MiB of zeros, then noise in which every 40..90 bytes a
		// marker is repeated (18..24 bytes, more than 4 MiB back): in a stream of literals each
		// of these matches is about as expensive as an LZMA operation can get (improbable match
		// bit, fresh length and distance coders, 21 distance footer bits), and they fall on
		// every position relative to the end of the 64 KiB chunks
		const nm, ml = 4096, 24
		if n < nm*ml+(9<<19)+1000 {
			r.Bytes(b)
			break
		}
		r.Bytes(b[:nm*ml])
		pos := nm*ml + 9<<19
		for pos < n {
			l := r.Range(40, 90)
			if pos+l > n {
				l = n - pos
			}
			r.Bytes(b[pos : pos+l])
			pos += l
			m := r.Intn(nm) * ml
			ln := r.Range(18, ml)
			if pos+ln > n {
				break
			}
			copy(b[pos:pos+ln], b[m:m+ln])
			pos += ln
		}
	case "maxrun":
		// periodic stretches of length p + 273*k + 1 between short pieces of text: a greedy
		// encoder cuts its matches at the maximum length 273 and is left with a single
		// byte at rep0 distance, i.e. it emits short reps directly after matches
		i := 0
		for i < n {
			t := r.Range(0, 40)
			if i+t > n {
				t = n - i
			}
			copy(b[i:i+t], text(r, t))
			i += t
			p := r.Pick(1, 1, 1, 2, 3, 5)
			l := p + 273*r.Range(1, 3) + r.Pick(1, 1, 1, 0, 2)
			if i+l > n {
				l = n - i
			}
			for j := 0; j < l; j++ {
				if j < p {
					b[i+j] = byte(r.U64())
				} else {
					b[i+j] = b[i+j-p]
				}
			}
			i += l
		}
	case "randzeros":
		// an incompressible head followed by zeros: after a chunk closed by the compressed
		// size limit the next one runs into the uncompressed size limit
		h := n / 8
		if h > 80000 {
			h = 80000
		}
		r.Bytes(b[:h])
	case "ramp":
		for i := range b {
			b[i] = byte(i)
		}
	case "nearrep":
		// long repetition with sparse differences: exercises rep matches
		p := r.Range(8, 300)
		r.Bytes(b[:min(p, n)])
		for i := p; i < n; i++ {
			b[i] = b[i-p]
			if r.Chance(1, 40) {
				b[i] ^= byte(1 << uint(r.Intn(8)))
			}
		}
	default:
		r.Bytes(b)
	}
	return b
}

// noisyRep fills b with random bytes in which, about every 5000 bytes, an earlier stretch is
// repeated (length from every class of the length coder, sometimes at the distance of the
// previous repeat): too few repeats to make the data compressible, enough to make an encoder
// emit matches, rep matches and long lengths inside an incompressible chunk.
func noisyRep(r *prng.R, b []byte) {
	r.Bytes(b)
	lastDist := 0
	for i := 400; i < len(b); i += r.Range(2500, 7500) {
		l := r.Pick(3, 5, 9, 10, 13, 17, 18, 19, 25, 40, 100, 273)
		d := r.Range(1, min(i, 60000))
		if lastDist > 0 && lastDist <= i && r.Chance(1, 3) {
			d = lastDist
		}
		lastDist = d
		for j := 0; j < l && i+j < len(b); j++ {
			b[i+j] = b[i+j-d]
		}
	}
}

func text(r *prng.R, n int) []byte {
	out := make([]byte, 0, n+16)
	for len(out) < n {
		out = append(out, words[r.Intn(len(words))]...)
		out = append(out, ' ')
	}
	return out[:n]
}

// Partition splits n bytes into write-call lengths.  Kinds: "one", "bytes",
// "random", "zerolen" (random with zero-length writes), "edges" (cuts at +-1
// around the given edges).
func Partition(r *prng.R, kind string, n int, edges []int) []int {
	switch kind {
	case "one":
		return []int{n}
	case "bytes":
		p := make([]int, n)
		for i := range p {
			p[i] = 1
		}
		return p
	case "edges":
		cuts := map[int]bool{}
		for _, e := range edges {
			for _, d := range []int{-1, 0, 1} {
				if c := e + d; c > 0 && c < n {
					cuts[c] = true
				}
			}
		}
		var p []int
		last := 0
		for c := 1; c < n; c++ {
			if cuts[c] {
				p = append(p, c-last)
				last = c
			}
		}
		return append(p, n-last)
	default:
		var p []int
		rem := n
		for rem > 0 {
			var l int
			switch r.Intn(4) {
			case 0:
				l = r.Range(1, 16)
			case 1:
				l = r.Range(1, 4096)
			default:
				l = r.Range(1, max(1, n/2))
			}
			if l > rem {
				l = rem
			}
			if kind == "zerolen" && r.Chance(1, 3) {
				p = append(p, 0)
			}
			p = append(p, l)
			rem -= l
		}
		if kind == "zerolen" {
			p = append(p, 0)
		}
		if len(p) == 0 {
			p = []int{0}
		}
		return p
	}
}
