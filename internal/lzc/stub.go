//go:build !liblzma

// Package lzc: stub used when liblzma/cgo is not available.  Every oracle that
// would use it reports itself as skipped in the evidence.
package lzc

import "errors"

func Available() bool { return false }
func Version() string { return "" }

const (
	StreamEnd = 1
	OverLimit = 1000
)

type Result struct {
	Out      []byte
	Consumed int
	Ret      int
}

func (r Result) OK() bool   { return false }
func (r Result) Err() error { return errors.New("liblzma not available") }

func DecodeXZ(in []byte, concatenated bool, maxOut int) Result { return Result{Ret: -1} }
func DecodeAlone(in []byte, maxOut int) Result                 { return Result{Ret: -1} }
func DecodeRawLZMA2(in []byte, dict uint32, maxOut int) Result { return Result{Ret: -1} }

const (
	KindXZ = iota
	KindAlone
	KindRawLZMA2
	KindXZMT
)
const (
	SyncFlush = 1
	FullFlush = 2
)

type EncOpts struct {
	Kind       int
	Preset     int
	Extreme    bool
	Custom     bool
	Dict       uint32
	LC, LP, PB int
	ModeNormal bool
	Nice       int
	MF         int
	Depth      int
	Check      int
	BlockSize  uint64
	Threads    int
	FlushAt    []int
	FlushAct   []int
}

func Encode(in []byte, o EncOpts) Result { return Result{Ret: -1} }
