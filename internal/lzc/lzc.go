//go:build liblzma

// Package lzc is a thin cgo shim around the system liblzma, used as a foreign
// oracle (decoder) and foreign encoder.  Built only with the tag "liblzma".
package lzc

/*
#cgo LDFLAGS: -llzma
#include <lzma.h>
#include <stdlib.h>
#include <string.h>

typedef struct {
	uint8_t *out; size_t outlen; size_t outcap;
	size_t consumed;
	int ret;
} vres;

static int grow(vres *r, size_t need) {
	if (r->outcap - r->outlen >= need) return 1;
	size_t nc = r->outcap ? r->outcap * 2 : 65536;
	while (nc - r->outlen < need) nc *= 2;
	uint8_t *p = realloc(r->out, nc);
	if (!p) return 0;
	r->out = p; r->outcap = nc; return 1;
}

// run drives an initialised stream over in; flushes lists input offsets at which
// the given action (LZMA_SYNC_FLUSH / LZMA_FULL_FLUSH) is applied (encoders).
static void run(lzma_stream *s, const uint8_t *in, size_t inlen, size_t maxout,
		const size_t *flushes, const int *factions, size_t nflush, vres *r) {
	size_t fi = 0;
	size_t pos = 0;
	r->ret = LZMA_OK;
	for (;;) {
		lzma_action act = LZMA_FINISH;
		size_t upto = inlen;
		if (fi < nflush && flushes[fi] <= inlen) { upto = flushes[fi]; act = (lzma_action)factions[fi]; }
		if (upto < pos) upto = pos;
		s->next_in = in + pos; s->avail_in = upto - pos;
		for (;;) {
			if (!grow(r, 65536)) { r->ret = LZMA_MEM_ERROR; return; }
			s->next_out = r->out + r->outlen; s->avail_out = r->outcap - r->outlen;
			size_t before = s->avail_out;
			lzma_ret ret = lzma_code(s, act);
			r->outlen += before - s->avail_out;
			if (maxout && r->outlen > maxout) { r->ret = 1000; pos = upto - s->avail_in; r->consumed = pos; return; }
			if (ret == LZMA_STREAM_END) {
				pos = upto - s->avail_in;
				if (act == LZMA_FINISH) { r->ret = LZMA_STREAM_END; r->consumed = pos; return; }
				break; // flush completed
			}
			if (ret != LZMA_OK) { r->ret = ret; r->consumed = upto - s->avail_in; return; }
		}
		pos = upto;
		fi++;
	}
}

static void dec_xz(const uint8_t *in, size_t inlen, int concat, size_t maxout, vres *r) {
	lzma_stream s = LZMA_STREAM_INIT;
	uint32_t fl = concat ? LZMA_CONCATENATED : 0;
	lzma_ret ret = lzma_stream_decoder(&s, UINT64_MAX, fl);
	if (ret != LZMA_OK) { r->ret = ret; return; }
	run(&s, in, inlen, maxout, NULL, NULL, 0, r);
	lzma_end(&s);
}

static void dec_alone(const uint8_t *in, size_t inlen, size_t maxout, vres *r) {
	lzma_stream s = LZMA_STREAM_INIT;
	lzma_ret ret = lzma_alone_decoder(&s, UINT64_MAX);
	if (ret != LZMA_OK) { r->ret = ret; return; }
	run(&s, in, inlen, maxout, NULL, NULL, 0, r);
	lzma_end(&s);
}

static void dec_raw2(const uint8_t *in, size_t inlen, uint32_t dict, size_t maxout, vres *r) {
	lzma_stream s = LZMA_STREAM_INIT;
	lzma_options_lzma o; memset(&o, 0, sizeof o);
	o.dict_size = dict;
	lzma_filter f[2] = {{LZMA_FILTER_LZMA2, &o}, {LZMA_VLI_UNKNOWN, NULL}};
	lzma_ret ret = lzma_raw_decoder(&s, f);
	if (ret != LZMA_OK) { r->ret = ret; return; }
	run(&s, in, inlen, maxout, NULL, NULL, 0, r);
	lzma_end(&s);
}

typedef struct {
	int preset; int extreme; int custom;
	uint32_t dict, lc, lp, pb, mode, nice, mf, depth;
	int check; int kind; // 0 xz, 1 alone, 2 raw lzma2, 3 xz multithreaded
	uint64_t block_size; int threads;
} vopts;

static void enc(const uint8_t *in, size_t inlen, const vopts *v,
		const size_t *flushes, const int *factions, size_t nflush, vres *r) {
	lzma_stream s = LZMA_STREAM_INIT;
	lzma_options_lzma o;
	uint32_t preset = (uint32_t)v->preset | (v->extreme ? LZMA_PRESET_EXTREME : 0);
	if (lzma_lzma_preset(&o, preset)) { r->ret = LZMA_OPTIONS_ERROR; return; }
	if (v->custom) {
		o.dict_size = v->dict; o.lc = v->lc; o.lp = v->lp; o.pb = v->pb;
		o.mode = v->mode ? LZMA_MODE_NORMAL : LZMA_MODE_FAST;
		o.nice_len = v->nice;
		switch (v->mf) { case 0: o.mf = LZMA_MF_HC3; break; case 1: o.mf = LZMA_MF_HC4; break;
			case 2: o.mf = LZMA_MF_BT2; break; case 3: o.mf = LZMA_MF_BT3; break; default: o.mf = LZMA_MF_BT4; }
		o.depth = v->depth;
	}
	lzma_filter f[2] = {{LZMA_FILTER_LZMA2, &o}, {LZMA_VLI_UNKNOWN, NULL}};
	lzma_ret ret;
	if (v->kind == 0) ret = lzma_stream_encoder(&s, f, (lzma_check)v->check);
	else if (v->kind == 1) ret = lzma_alone_encoder(&s, &o);
	else if (v->kind == 2) ret = lzma_raw_encoder(&s, f);
	else {
		lzma_mt mt; memset(&mt, 0, sizeof mt);
		mt.threads = v->threads; mt.block_size = v->block_size; mt.filters = f; mt.check = (lzma_check)v->check;
		ret = lzma_stream_encoder_mt(&s, &mt);
	}
	if (ret != LZMA_OK) { r->ret = ret; return; }
	run(&s, in, inlen, 0, flushes, factions, nflush, r);
	lzma_end(&s);
}
*/
import "C"

import (
	"fmt"
	"unsafe"
)

// Available reports that the shim is linked in.
func Available() bool { return true }

func Version() string { return C.GoString(C.lzma_version_string()) }

// Error codes of interest.
const (
	StreamEnd = 1
	OverLimit = 1000
)

type Result struct {
	Out      []byte
	Consumed int
	Ret      int // liblzma return code; StreamEnd (1) on success
}

func (r Result) OK() bool { return r.Ret == StreamEnd }

func (r Result) Err() error {
	if r.OK() {
		return nil
	}
	names := map[int]string{0: "LZMA_OK(unfinished)", 2: "NO_CHECK", 3: "UNSUPPORTED_CHECK", 5: "MEM_ERROR", 6: "MEMLIMIT", 7: "FORMAT_ERROR", 8: "OPTIONS_ERROR", 9: "DATA_ERROR", 10: "BUF_ERROR", 11: "PROG_ERROR", 1000: "output limit"}
	return fmt.Errorf("liblzma: %s (%d)", names[r.Ret], r.Ret)
}

func ptr(b []byte) *C.uint8_t {
	if len(b) == 0 {
		return (*C.uint8_t)(unsafe.Pointer(&zero[0]))
	}
	return (*C.uint8_t)(unsafe.Pointer(&b[0]))
}

var zero [1]byte

func finish(r *C.vres) Result {
	res := Result{Consumed: int(r.consumed), Ret: int(r.ret)}
	if r.out != nil {
		res.Out = C.GoBytes(unsafe.Pointer(r.out), C.int(r.outlen))
		C.free(unsafe.Pointer(r.out))
	}
	return res
}

// DecodeXZ runs liblzma's .xz stream decoder.
func DecodeXZ(in []byte, concatenated bool, maxOut int) Result {
	var r C.vres
	c := C.int(0)
	if concatenated {
		c = 1
	}
	C.dec_xz(ptr(in), C.size_t(len(in)), c, C.size_t(maxOut), &r)
	return finish(&r)
}

// DecodeAlone runs liblzma's .lzma decoder.
func DecodeAlone(in []byte, maxOut int) Result {
	var r C.vres
	C.dec_alone(ptr(in), C.size_t(len(in)), C.size_t(maxOut), &r)
	return finish(&r)
}

// DecodeRawLZMA2 runs liblzma's raw LZMA2 decoder.
func DecodeRawLZMA2(in []byte, dict uint32, maxOut int) Result {
	var r C.vres
	C.dec_raw2(ptr(in), C.size_t(len(in)), C.uint32_t(dict), C.size_t(maxOut), &r)
	return finish(&r)
}

// Kind of container to encode.
const (
	KindXZ = iota
	KindAlone
	KindRawLZMA2
	KindXZMT
)

// Flush actions.
const (
	SyncFlush = 1
	FullFlush = 2
)

type EncOpts struct {
	Kind       int
	Preset     int
	Extreme    bool
	Custom     bool
	Dict       uint32
	LC, LP, PB int
	ModeNormal bool
	Nice       int
	MF         int // 0 hc3, 1 hc4, 2 bt2, 3 bt3, 4 bt4
	Depth      int
	Check      int
	BlockSize  uint64
	Threads    int
	FlushAt    []int // input offsets (ascending)
	FlushAct   []int // SyncFlush / FullFlush per offset
}

// Encode compresses in with liblzma.
func Encode(in []byte, o EncOpts) Result {
	var v C.vopts
	v.preset = C.int(o.Preset)
	if o.Extreme {
		v.extreme = 1
	}
	if o.Custom {
		v.custom = 1
	}
	v.dict, v.lc, v.lp, v.pb = C.uint32_t(o.Dict), C.uint32_t(o.LC), C.uint32_t(o.LP), C.uint32_t(o.PB)
	if o.ModeNormal {
		v.mode = 1
	}
	v.nice, v.mf, v.depth = C.uint32_t(o.Nice), C.uint32_t(o.MF), C.uint32_t(o.Depth)
	v.check, v.kind = C.int(o.Check), C.int(o.Kind)
	v.block_size, v.threads = C.uint64_t(o.BlockSize), C.int(o.Threads)
	if v.threads == 0 {
		v.threads = 2
	}
	var r C.vres
	n := len(o.FlushAt)
	var fp *C.size_t
	var ap *C.int
	if n > 0 {
		fl := (*[1 << 20]C.size_t)(C.malloc(C.size_t(n) * C.size_t(unsafe.Sizeof(C.size_t(0)))))
		al := (*[1 << 20]C.int)(C.malloc(C.size_t(n) * C.size_t(unsafe.Sizeof(C.int(0)))))
		defer C.free(unsafe.Pointer(fl))
		defer C.free(unsafe.Pointer(al))
		for i := 0; i < n; i++ {
			fl[i] = C.size_t(o.FlushAt[i])
			al[i] = C.int(o.FlushAct[i])
		}
		fp, ap = &fl[0], &al[0]
	}
	C.enc(ptr(in), C.size_t(len(in)), &v, fp, ap, C.size_t(n), &r)
	return finish(&r)
}
