// Package ev is the verdict plumbing shared by all checks: evidence files,
// replay files, known findings, the three-valued outcome.
package ev

import (
	"encoding/json"
	"fmt"
	"os"
	"path/filepath"
	"sort"
	"strings"
	"sync"
	"time"
)

// Exit codes of vcheck.
const (
	ExitHeld         = 0
	ExitViolation    = 1
	ExitInconclusive = 3 // nothing (or too little) could be evaluated; never a VIOLATION line
)

// Finding is one line of known_findings.jsonl.
type Finding struct {
	Status    string `json:"status"` // "known" or "fixed"
	Property  string `json:"property"`
	Signature string `json:"signature"` // matched exactly against the signature of a violation
	Commit    string `json:"commit,omitempty"`
	What      string `json:"what"`
}

// Ctx collects what one run of one check observed.
type Ctx struct {
	ID       string
	Tier     string
	Seed     uint64
	Level    string
	Dir      string // /verif
	WorkDir  string // /verif/.work
	ReplayOf string // non-empty: replay mode, path of the replay file
	Replay   map[string]any

	mu            sync.Mutex
	start         time.Time
	evals         int64
	classes       map[string]struct{}
	rule          string
	samples       []any
	maxSamples    int
	extra         map[string]any
	counters      map[string]int64
	assumptions   []string
	violations    int
	violSigs      map[string]int
	knownPrinted  map[string]bool
	inconclusive  []string
	nInconclusive int
	exhaustive    *bool
	findings      []Finding
	minEvals      int64
}

func New(id, tier string, seed uint64, level, dir string) *Ctx {
	c := &Ctx{ID: id, Tier: tier, Seed: seed, Level: level, Dir: dir,
		WorkDir: filepath.Join(dir, ".work"), start: time.Now(),
		classes: map[string]struct{}{}, extra: map[string]any{},
		counters: map[string]int64{}, violSigs: map[string]int{},
		knownPrinted: map[string]bool{}, maxSamples: 6, minEvals: 1}
	c.loadFindings()
	return c
}

func (c *Ctx) loadFindings() {
	b, err := os.ReadFile(filepath.Join(c.Dir, "known_findings.jsonl"))
	if err != nil {
		return
	}
	for _, l := range strings.Split(string(b), "\n") {
		l = strings.TrimSpace(l)
		if l == "" || strings.HasPrefix(l, "#") {
			continue
		}
		var f Finding
		if json.Unmarshal([]byte(l), &f) == nil {
			c.findings = append(c.findings, f)
		}
	}
}

// SetRule states how cases are generated and what makes one distinct/non-trivial.
func (c *Ctx) SetRule(s string) { c.rule = s }

// MinEvals sets the number of evaluations below which the run "observed nothing".
func (c *Ctx) MinEvals(n int64) { c.minEvals = n }

func (c *Ctx) Assume(s ...string) {
	c.mu.Lock()
	c.assumptions = append(c.assumptions, s...)
	c.mu.Unlock()
}

// Eval records one evaluated case.  class is the tuple of classes the case fell
// into; it counts towards distinct_nontrivial only when nontrivial is true.
func (c *Ctx) Eval(class string, nontrivial bool) {
	c.mu.Lock()
	c.evals++
	if nontrivial {
		c.classes[class] = struct{}{}
	}
	c.mu.Unlock()
}

// EvalN records n evaluations of the same class.
func (c *Ctx) EvalN(n int64, class string, nontrivial bool) {
	c.mu.Lock()
	c.evals += n
	if nontrivial {
		c.classes[class] = struct{}{}
	}
	c.mu.Unlock()
}

// Count adds to a named counter that ends up in coverage.
func (c *Ctx) Count(name string, n int64) {
	c.mu.Lock()
	c.counters[name] += n
	c.mu.Unlock()
}

func (c *Ctx) Counter(name string) int64 {
	c.mu.Lock()
	defer c.mu.Unlock()
	return c.counters[name]
}

func (c *Ctx) Set(key string, v any) {
	c.mu.Lock()
	c.extra[key] = v
	c.mu.Unlock()
}

func (c *Ctx) Sample(v any) {
	c.mu.Lock()
	if len(c.samples) < c.maxSamples {
		c.samples = append(c.samples, v)
	}
	c.mu.Unlock()
}

// SampleEvery keeps a sample when fewer than the maximum are held; callers use
// it with a sparse predicate so samples are spread over the run.
func (c *Ctx) WantSample() bool {
	c.mu.Lock()
	defer c.mu.Unlock()
	return len(c.samples) < c.maxSamples
}

func (c *Ctx) Exhaustive(b bool) { c.exhaustive = &b }

func (c *Ctx) Inconclusive(msg string) {
	c.mu.Lock()
	c.nInconclusive++
	if len(c.inconclusive) < 20 {
		c.inconclusive = append(c.inconclusive, msg)
		fmt.Printf("INCONCLUSIVE property=%s %s\n", c.ID, msg)
	}
	c.mu.Unlock()
}

// Violation reports a concrete execution contradicting the property.  sig is a
// stable signature of the failing site/input class, used to match known
// findings; detail is stored in the replay file.
func (c *Ctx) Violation(sig string, detail map[string]any) {
	c.mu.Lock()
	defer c.mu.Unlock()
	for _, f := range c.findings {
		if f.Status == "known" && f.Property == c.ID && f.Signature == sig {
			if !c.knownPrinted[sig] {
				c.knownPrinted[sig] = true
				fmt.Printf("KNOWN-FINDING: property=%s %s\n", c.ID, f.What)
			}
			c.counters["known_finding_hits"]++
			return
		}
	}
	c.violations++
	c.violSigs[sig]++
	if c.violSigs[sig] > 3 || c.violations > 25 {
		return // keep the output readable; the count is still reported
	}
	if c.ReplayOf != "" {
		fmt.Printf("VIOLATION property=%s replay=%s\n", c.ID, c.ReplayOf)
		b, _ := json.MarshalIndent(detail, "", " ")
		fmt.Printf("replayed case still violates (%s):\n%s\n", sig, clip(string(b), 4000))
		return
	}
	dir := filepath.Join(c.WorkDir, "replay")
	os.MkdirAll(dir, 0o755)
	path := filepath.Join(dir, fmt.Sprintf("%s-%s-%d-%d.json", c.ID, c.Tier, c.Seed, c.violations))
	if detail == nil {
		detail = map[string]any{}
	}
	detail["property"] = c.ID
	detail["tier"] = c.Tier
	detail["seed"] = c.Seed
	detail["signature"] = sig
	b, _ := json.MarshalIndent(detail, "", " ")
	os.WriteFile(path, b, 0o644)
	fmt.Printf("VIOLATION property=%s replay=%s\n", c.ID, path)
	fmt.Printf("  signature: %s\n", sig)
	if w, ok := detail["what"]; ok {
		fmt.Printf("  what: %v\n", clip(fmt.Sprint(w), 600))
	}
}

func clip(s string, n int) string {
	if len(s) > n {
		return s[:n] + "…"
	}
	return s
}

func (c *Ctx) Violations() int {
	c.mu.Lock()
	defer c.mu.Unlock()
	return c.violations
}

type evidence struct {
	PropertyID  string         `json:"property_id"`
	Tier        string         `json:"tier"`
	Seed        int64          `json:"seed"`
	Level       string         `json:"level"`
	Coverage    map[string]any `json:"coverage"`
	Assumptions []string       `json:"assumptions"`
	WallS       float64        `json:"wall_s"`
	Violations  int            `json:"violations"`
}

// Finish writes the evidence file and returns the process exit code.
func (c *Ctx) Finish() int {
	c.mu.Lock()
	defer c.mu.Unlock()
	wall := time.Since(c.start).Seconds()
	if c.ReplayOf != "" {
		if c.violations > 0 {
			return ExitViolation
		}
		fmt.Printf("replay: case no longer violates property %s\n", c.ID)
		return ExitHeld
	}
	cov := map[string]any{}
	for k, v := range c.extra {
		cov[k] = v
	}
	keys := make([]string, 0, len(c.counters))
	for k := range c.counters {
		keys = append(keys, k)
	}
	sort.Strings(keys)
	for _, k := range keys {
		cov[k] = c.counters[k]
	}
	cov["evaluations"] = c.evals
	cov["distinct_nontrivial"] = len(c.classes)
	cov["rule"] = c.rule
	if len(c.samples) == 0 {
		c.samples = []any{}
	}
	cov["samples"] = c.samples
	cov["inconclusive"] = c.nInconclusive
	if len(c.inconclusive) > 0 {
		cov["inconclusive_cases"] = c.inconclusive
	}
	if c.exhaustive != nil {
		cov["exhaustive"] = *c.exhaustive
	}
	if len(c.knownPrinted) > 0 {
		l := []string{}
		for k := range c.knownPrinted {
			l = append(l, k)
		}
		sort.Strings(l)
		cov["known_findings_seen"] = l
	}
	if len(c.violSigs) > 0 {
		cov["violation_signatures"] = c.violSigs
	}
	e := evidence{PropertyID: c.ID, Tier: c.Tier, Seed: int64(c.Seed), Level: c.Level,
		Coverage: cov, Assumptions: c.assumptions, WallS: wall, Violations: c.violations}
	if e.Assumptions == nil {
		e.Assumptions = []string{}
	}
	b, _ := json.MarshalIndent(e, "", " ")
	evdir := filepath.Join(c.Dir, "evidence")
	if d := os.Getenv("VERIF_EVIDENCE_DIR"); d != "" {
		evdir = d // runs against scratch copies must not touch the committed evidence
	}
	os.MkdirAll(evdir, 0o755)
	path := filepath.Join(evdir, c.ID+".json")
	if err := os.WriteFile(path, append(b, '\n'), 0o644); err != nil {
		fmt.Fprintf(os.Stderr, "cannot write evidence: %v\n", err)
		return ExitInconclusive
	}
	status := "held on what was observed"
	code := ExitHeld
	if c.violations > 0 {
		status = fmt.Sprintf("VIOLATED (%d)", c.violations)
		code = ExitViolation
	} else if c.evals < c.minEvals || len(c.classes) < 2 {
		status = "inconclusive: observed too little"
		code = ExitInconclusive
	}
	fmt.Printf("%s %s seed=%d: %s; evaluations=%d distinct_nontrivial=%d inconclusive=%d wall=%.1fs\n",
		c.ID, c.Tier, c.Seed, status, c.evals, len(c.classes), c.nInconclusive, wall)
	return code
}

// Hex renders bytes for replay files: full hex up to limit bytes, otherwise
// head and tail.
func Hex(b []byte, limit int) string {
	const hexd = "0123456789abcdef"
	enc := func(p []byte) string {
		o := make([]byte, 2*len(p))
		for i, v := range p {
			o[2*i] = hexd[v>>4]
			o[2*i+1] = hexd[v&15]
		}
		return string(o)
	}
	if len(b) <= limit {
		return enc(b)
	}
	return fmt.Sprintf("%s…(%d bytes)…%s", enc(b[:limit/2]), len(b), enc(b[len(b)-limit/2:]))
}
