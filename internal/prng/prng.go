// Package prng is a small deterministic generator (splitmix64 seeding a
// xoshiro256**).  Case lists must be stable across Go versions, so math/rand is
// not used anywhere in the checks.
package prng

type R struct{ s [4]uint64 }

func splitmix(x *uint64) uint64 {
	*x += 0x9e3779b97f4a7c15
	z := *x
	z = (z ^ (z >> 30)) * 0xbf58476d1ce4e5b9
	z = (z ^ (z >> 27)) * 0x94d049bb133111eb
	return z ^ (z >> 31)
}

// New returns a generator determined by seed and the stream labels.
func New(seed uint64, labels ...uint64) *R {
	x := seed
	for _, l := range labels {
		x = splitmix(&x) ^ (l * 0xd6e8feb86659fd93)
	}
	r := &R{}
	for i := range r.s {
		r.s[i] = splitmix(&x)
	}
	return r
}

func rotl(x uint64, k uint) uint64 { return (x << k) | (x >> (64 - k)) }

func (r *R) U64() uint64 {
	s := &r.s
	res := rotl(s[1]*5, 7) * 9
	t := s[1] << 17
	s[2] ^= s[0]
	s[3] ^= s[1]
	s[1] ^= s[2]
	s[0] ^= s[3]
	s[2] ^= t
	s[3] = rotl(s[3], 45)
	return res
}

// Intn returns a value in [0,n).
func (r *R) Intn(n int) int {
	if n <= 0 {
		return 0
	}
	return int(r.U64() % uint64(n))
}

// Range returns a value in [lo,hi].
func (r *R) Range(lo, hi int) int {
	if hi <= lo {
		return lo
	}
	return lo + r.Intn(hi-lo+1)
}

func (r *R) Bool() bool { return r.U64()&1 == 1 }

// Chance is true with probability num/den.
func (r *R) Chance(num, den int) bool { return r.Intn(den) < num }

func (r *R) Bytes(p []byte) {
	i := 0
	for ; i+8 <= len(p); i += 8 {
		v := r.U64()
		p[i] = byte(v)
		p[i+1] = byte(v >> 8)
		p[i+2] = byte(v >> 16)
		p[i+3] = byte(v >> 24)
		p[i+4] = byte(v >> 32)
		p[i+5] = byte(v >> 40)
		p[i+6] = byte(v >> 48)
		p[i+7] = byte(v >> 56)
	}
	if i < len(p) {
		v := r.U64()
		for ; i < len(p); i++ {
			p[i] = byte(v)
			v >>= 8
		}
	}
}

// Pick returns one of the given ints.
func (r *R) Pick(v ...int) int { return v[r.Intn(len(v))] }

// Perm returns a permutation of 0..n-1.
func (r *R) Perm(n int) []int {
	p := make([]int, n)
	for i := range p {
		p[i] = i
	}
	for i := n - 1; i > 0; i-- {
		j := r.Intn(i + 1)
		p[i], p[j] = p[j], p[i]
	}
	return p
}
