package ref

import (
	"bytes"
	"crypto/sha256"
	"encoding/binary"
	"errors"
	"fmt"
	"hash/crc32"
	"hash/crc64"
)

var (
	xzMagic     = []byte{0xFD, '7', 'z', 'X', 'Z', 0x00}
	xzFootMagic = []byte{'Y', 'Z'}
	crc64tab    = crc64.MakeTable(crc64.ECMA)
)

// Check ids of the .xz format.
const (
	CheckNone   = 0
	CheckCRC32  = 1
	CheckCRC64  = 4
	CheckSHA256 = 10
)

// CheckSize returns the size of the check field for a check id (-1 invalid).
func CheckSize(id byte) int {
	switch {
	case id == 0:
		return 0
	case id <= 3:
		return 4
	case id <= 6:
		return 8
	case id <= 9:
		return 16
	case id <= 12:
		return 32
	case id <= 15:
		return 64
	}
	return -1
}

// CheckBytes computes the check value the format prescribes.
func CheckBytes(id byte, data []byte) []byte {
	switch id {
	case CheckNone:
		return nil
	case CheckCRC32:
		var b [4]byte
		binary.LittleEndian.PutUint32(b[:], crc32.ChecksumIEEE(data))
		return b[:]
	case CheckCRC64:
		var b [8]byte
		binary.LittleEndian.PutUint64(b[:], crc64.Checksum(data, crc64tab))
		return b[:]
	case CheckSHA256:
		s := sha256.Sum256(data)
		return s[:]
	}
	return nil
}

func putVarint(b []byte, v uint64) []byte {
	for v >= 0x80 {
		b = append(b, byte(v)|0x80)
		v >>= 7
	}
	return append(b, byte(v))
}

// getVarint decodes a minimal-length multibyte integer (at most 9 bytes).
func getVarint(in []byte) (v uint64, n int, err error) { return getVarintL(in, false) }

// getVarintL is getVarint; with lenient set a padded (non-minimal) encoding is accepted, as the
// format only obliges encoders to use the shortest form.
func getVarintL(in []byte, lenient bool) (v uint64, n int, err error) {
	for i := 0; i < 9; i++ {
		if i >= len(in) {
			return 0, 0, ErrTruncated
		}
		b := in[i]
		v |= uint64(b&0x7F) << uint(7*i)
		if b&0x80 == 0 {
			if b == 0 && i > 0 && !lenient {
				return 0, 0, errors.New("ref: non-minimal multibyte integer")
			}
			return v, i + 1, nil
		}
	}
	return 0, 0, errors.New("ref: multibyte integer too long")
}

func le32(b []byte) uint32 { return binary.LittleEndian.Uint32(b) }

// XZBlock describes one block of a parsed stream; offsets are absolute.
type XZBlock struct {
	HeaderOff  int
	HeaderSize int
	Flags      byte
	CompField  int64 // -1 = absent
	UncField   int64
	DictCode   byte
	DictSize   int64
	HeaderPad  int
	DataOff    int
	CompLen    int // measured
	UncLen     int // measured
	PadLen     int
	CheckOff   int
	Chunks     []Chunk
	Stats      Stats
}

// XZStream describes one parsed stream.
type XZStream struct {
	Off          int
	Check        byte
	Blocks       []XZBlock
	IndexOff     int
	Records      [][2]int64
	IndexPad     int
	IndexSize    int
	FooterOff    int
	End          int
	PaddingAfter int
}

// DecodeXZ strictly decodes a .xz file (one or more streams with stream
// padding in between and at the end).
func DecodeXZ(in []byte, maxOut int) (out []byte, streams []XZStream, err error) {
	return decodeXZ(in, maxOut, false)
}

// DecodeXZLenient is DecodeXZ except that multibyte integers may be encoded in a longer than
// the shortest form; everything else is checked as strictly.
func DecodeXZLenient(in []byte, maxOut int) (out []byte, streams []XZStream, err error) {
	return decodeXZ(in, maxOut, true)
}

func decodeXZ(in []byte, maxOut int, lenient bool) (out []byte, streams []XZStream, err error) {
	pos := 0
	for {
		if pos == len(in) && len(streams) > 0 {
			return out, streams, nil
		}
		var s XZStream
		var o []byte
		o, s, err = decodeXZStream(in, pos, maxOut-len(out), lenient)
		out = append(out, o...)
		if err != nil {
			return out, streams, err
		}
		pos = s.End
		// stream padding
		pad := 0
		for pos+pad < len(in) && in[pos+pad] == 0 {
			pad++
		}
		if pad%4 != 0 {
			if pos+pad == len(in) {
				streams = append(streams, s)
				return out, streams, errors.New("ref: stream padding is not a multiple of four bytes")
			}
			// the zero bytes run into a non-zero byte: only whole groups of
			// four are padding, the rest belongs to whatever follows
			streams = append(streams, s)
			return out, streams, errors.New("ref: stream padding is not a multiple of four bytes")
		}
		s.PaddingAfter = pad
		pos += pad
		streams = append(streams, s)
		if maxOut > 0 && len(out) >= maxOut {
			return out, streams, ErrLimit
		}
	}
}

func decodeXZStream(in []byte, off int, maxOut int, lenient bool) (out []byte, s XZStream, err error) {
	s.Off = off
	if len(in)-off < 12 {
		return nil, s, ErrTruncated
	}
	h := in[off : off+12]
	if !bytes.Equal(h[:6], xzMagic) {
		return nil, s, errors.New("ref: bad stream header magic")
	}
	if crc32.ChecksumIEEE(h[6:8]) != le32(h[8:]) {
		return nil, s, errors.New("ref: stream header CRC32 mismatch")
	}
	if h[6] != 0 || h[7]&0xF0 != 0 {
		return nil, s, errors.New("ref: reserved stream flag bits set")
	}
	s.Check = h[7]
	switch s.Check {
	case CheckNone, CheckCRC32, CheckCRC64, CheckSHA256:
	default:
		return nil, s, fmt.Errorf("ref: unsupported check id %d", s.Check)
	}
	pos := off + 12
	for {
		if pos >= len(in) {
			return out, s, ErrTruncated
		}
		if in[pos] == 0 {
			break
		}
		var b XZBlock
		b.HeaderOff = pos
		b.HeaderSize = (int(in[pos]) + 1) * 4
		if len(in)-pos < b.HeaderSize {
			return out, s, ErrTruncated
		}
		hd := in[pos : pos+b.HeaderSize]
		if crc32.ChecksumIEEE(hd[:len(hd)-4]) != le32(hd[len(hd)-4:]) {
			return out, s, errors.New("ref: block header CRC32 mismatch")
		}
		b.Flags = hd[1]
		if b.Flags&0x3C != 0 {
			return out, s, errors.New("ref: reserved block flags set")
		}
		if b.Flags&3 != 0 {
			return out, s, errors.New("ref: more than one filter (only LZMA2 supported)")
		}
		q := 2
		lim := len(hd) - 4
		b.CompField, b.UncField = -1, -1
		if b.Flags&0x40 != 0 {
			v, n, e := getVarintL(hd[q:lim], lenient)
			if e != nil {
				return out, s, fmt.Errorf("ref: compressed size field: %v", e)
			}
			if v == 0 || v >= 1<<63 {
				return out, s, errors.New("ref: compressed size field out of range")
			}
			b.CompField = int64(v)
			q += n
		}
		if b.Flags&0x80 != 0 {
			v, n, e := getVarintL(hd[q:lim], lenient)
			if e != nil {
				return out, s, fmt.Errorf("ref: uncompressed size field: %v", e)
			}
			if v >= 1<<63 {
				return out, s, errors.New("ref: uncompressed size field out of range")
			}
			b.UncField = int64(v)
			q += n
		}
		id, n, e := getVarintL(hd[q:lim], lenient)
		if e != nil {
			return out, s, fmt.Errorf("ref: filter id: %v", e)
		}
		q += n
		if id != 0x21 {
			return out, s, fmt.Errorf("ref: unsupported filter id %#x", id)
		}
		ps, n, e := getVarintL(hd[q:lim], lenient)
		if e != nil {
			return out, s, fmt.Errorf("ref: filter properties size: %v", e)
		}
		q += n
		if ps != 1 || q >= lim {
			return out, s, errors.New("ref: LZMA2 filter properties size is not 1")
		}
		b.DictCode = hd[q]
		q++
		ds, ok := DictSizeForCode(b.DictCode)
		if !ok {
			return out, s, fmt.Errorf("ref: invalid dictionary size code %d", b.DictCode)
		}
		b.DictSize = ds
		b.HeaderPad = lim - q
		for _, z := range hd[q:lim] {
			if z != 0 {
				return out, s, errors.New("ref: non-zero block header padding")
			}
		}
		b.DataOff = pos + b.HeaderSize
		o, info, e := DecodeLZMA2(in[b.DataOff:], ds, false, maxOut-len(out))
		out = append(out, o...)
		b.Chunks, b.Stats = info.Chunks, info.Stats
		if e != nil {
			s.Blocks = append(s.Blocks, b)
			return out, s, e
		}
		b.CompLen, b.UncLen = info.Consumed, len(o)
		if b.CompField >= 0 && b.CompField != int64(b.CompLen) {
			return out, s, fmt.Errorf("ref: block header compressed size %d, measured %d", b.CompField, b.CompLen)
		}
		if b.UncField >= 0 && b.UncField != int64(b.UncLen) {
			return out, s, fmt.Errorf("ref: block header uncompressed size %d, measured %d", b.UncField, b.UncLen)
		}
		p := b.DataOff + b.CompLen
		b.PadLen = (4 - b.CompLen%4) % 4
		cs := CheckSize(s.Check)
		if len(in)-p < b.PadLen+cs {
			s.Blocks = append(s.Blocks, b)
			return out, s, ErrTruncated
		}
		for _, z := range in[p : p+b.PadLen] {
			if z != 0 {
				return out, s, errors.New("ref: non-zero block padding")
			}
		}
		p += b.PadLen
		b.CheckOff = p
		if !bytes.Equal(in[p:p+cs], CheckBytes(s.Check, o)) {
			return out, s, errors.New("ref: block check mismatch")
		}
		pos = p + cs
		s.Blocks = append(s.Blocks, b)
	}
	// index
	s.IndexOff = pos
	q := pos + 1
	cnt, n, e := getVarintL(in[q:], lenient)
	if e != nil {
		return out, s, e
	}
	q += n
	if cnt != uint64(len(s.Blocks)) {
		return out, s, fmt.Errorf("ref: index lists %d records, stream has %d blocks", cnt, len(s.Blocks))
	}
	for i := range s.Blocks {
		u, n, e := getVarintL(in[q:], lenient)
		if e != nil {
			return out, s, e
		}
		q += n
		v, n, e := getVarintL(in[q:], lenient)
		if e != nil {
			return out, s, e
		}
		q += n
		b := &s.Blocks[i]
		unp := int64(b.HeaderSize + b.CompLen + CheckSize(s.Check))
		s.Records = append(s.Records, [2]int64{int64(u), int64(v)})
		if int64(u) != unp || int64(v) != int64(b.UncLen) {
			return out, s, fmt.Errorf("ref: index record %d is (%d,%d), measured (%d,%d)", i, u, v, unp, b.UncLen)
		}
	}
	s.IndexPad = (4 - (q-pos)%4) % 4
	if len(in)-q < s.IndexPad+4 {
		return out, s, ErrTruncated
	}
	for _, z := range in[q : q+s.IndexPad] {
		if z != 0 {
			return out, s, errors.New("ref: non-zero index padding")
		}
	}
	q += s.IndexPad
	if crc32.ChecksumIEEE(in[pos:q]) != le32(in[q:]) {
		return out, s, errors.New("ref: index CRC32 mismatch")
	}
	q += 4
	s.IndexSize = q - pos
	s.FooterOff = q
	if len(in)-q < 12 {
		return out, s, ErrTruncated
	}
	f := in[q : q+12]
	if !bytes.Equal(f[10:], xzFootMagic) {
		return out, s, errors.New("ref: bad footer magic")
	}
	if crc32.ChecksumIEEE(f[4:10]) != le32(f) {
		return out, s, errors.New("ref: footer CRC32 mismatch")
	}
	if (int64(le32(f[4:]))+1)*4 != int64(s.IndexSize) {
		return out, s, fmt.Errorf("ref: backward size %d, index size %d", (int64(le32(f[4:]))+1)*4, s.IndexSize)
	}
	if f[8] != 0 || f[9] != s.Check {
		return out, s, errors.New("ref: footer stream flags differ from header")
	}
	s.End = q + 12
	if (s.End-s.Off)%4 != 0 {
		return out, s, errors.New("ref: stream length not a multiple of four")
	}
	return out, s, nil
}

// ---- builders (used by generators and by the structural mutator) ----

// StreamHeader builds a stream header; flags0 is the reserved first flag byte.
func StreamHeader(flags0, check byte) []byte {
	b := append([]byte{}, xzMagic...)
	b = append(b, flags0, check)
	var c [4]byte
	binary.LittleEndian.PutUint32(c[:], crc32.ChecksumIEEE(b[6:8]))
	return append(b, c[:]...)
}

// StreamFooter builds a footer for an index of indexSize bytes.
func StreamFooter(indexSize int64, flags0, check byte) []byte {
	b := make([]byte, 12)
	binary.LittleEndian.PutUint32(b[4:], uint32(indexSize/4-1))
	b[8], b[9] = flags0, check
	copy(b[10:], xzFootMagic)
	binary.LittleEndian.PutUint32(b, crc32.ChecksumIEEE(b[4:10]))
	return b
}

// BlockHeaderSpec allows building legal and deliberately illegal block headers.
type BlockHeaderSpec struct {
	Comp, Unc int64 // -1 = absent
	FlagsOr   byte  // extra bits or-ed into the flags byte
	FilterID  uint64
	PropsSize uint64
	Props     []byte
	ExtraPad  int  // additional groups of four zero bytes
	PadByte   byte // value of padding bytes (0 legal)
	Comp63    bool // write 2^63 as compressed size (out of range for the format)
	Unc63     bool // write 2^63 as uncompressed size
}

func LZMA2BlockHeader(comp, unc int64, dictCode byte) BlockHeaderSpec {
	return BlockHeaderSpec{Comp: comp, Unc: unc, FilterID: 0x21, PropsSize: 1, Props: []byte{dictCode}}
}

func (s BlockHeaderSpec) Bytes() []byte {
	b := []byte{0, 0}
	fl := s.FlagsOr
	if s.Comp63 {
		fl |= 0x40
		b = putVarint(b, 1<<63)
	} else if s.Comp >= 0 {
		fl |= 0x40
		b = putVarint(b, uint64(s.Comp))
	}
	if s.Unc63 {
		fl |= 0x80
		b = putVarint(b, 1<<63)
	} else if s.Unc >= 0 {
		fl |= 0x80
		b = putVarint(b, uint64(s.Unc))
	}
	b[1] = fl
	b = putVarint(b, s.FilterID)
	b = putVarint(b, s.PropsSize)
	b = append(b, s.Props...)
	for len(b)%4 != 0 {
		b = append(b, s.PadByte)
	}
	for i := 0; i < 4*s.ExtraPad; i++ {
		b = append(b, s.PadByte)
	}
	b[0] = byte((len(b)+4)/4 - 1)
	var c [4]byte
	binary.LittleEndian.PutUint32(c[:], crc32.ChecksumIEEE(b))
	return append(b, c[:]...)
}

// IndexBytes builds an index; count < 0 means len(records).
func IndexBytes(records [][2]int64, count int64, padByte byte) []byte {
	b := []byte{0}
	if count < 0 {
		count = int64(len(records))
	}
	b = putVarint(b, uint64(count))
	for _, r := range records {
		b = putVarint(b, uint64(r[0]))
		b = putVarint(b, uint64(r[1]))
	}
	for len(b)%4 != 0 {
		b = append(b, padByte)
	}
	var c [4]byte
	binary.LittleEndian.PutUint32(c[:], crc32.ChecksumIEEE(b))
	return append(b, c[:]...)
}

// BlockSpec is one block of a container to build.
type BlockSpec struct {
	LZMA2      []byte // chunk sequence including the end chunk
	Content    []byte
	DictCode   byte
	WithComp   bool
	WithUnc    bool
	HeaderPads int
}

// BuildXZ assembles a valid single stream from blocks.
func BuildXZ(check byte, blocks []BlockSpec) []byte {
	out := StreamHeader(0, check)
	var recs [][2]int64
	for _, b := range blocks {
		comp, unc := int64(-1), int64(-1)
		if b.WithComp {
			comp = int64(len(b.LZMA2))
		}
		if b.WithUnc {
			unc = int64(len(b.Content))
		}
		hs := LZMA2BlockHeader(comp, unc, b.DictCode)
		hs.ExtraPad = b.HeaderPads
		h := hs.Bytes()
		out = append(out, h...)
		out = append(out, b.LZMA2...)
		for i := 0; i < (4-len(b.LZMA2)%4)%4; i++ {
			out = append(out, 0)
		}
		out = append(out, CheckBytes(check, b.Content)...)
		recs = append(recs, [2]int64{int64(len(h) + len(b.LZMA2) + CheckSize(check)), int64(len(b.Content))})
	}
	idx := IndexBytes(recs, -1, 0)
	out = append(out, idx...)
	out = append(out, StreamFooter(int64(len(idx)), 0, check)...)
	return out
}

// WalkLZMA2 lists the chunks of a chunk sequence by following the headers
// only (no decoding).  It stops after the end chunk.
func WalkLZMA2(in []byte) (chunks []Chunk, consumed int, err error) {
	pos := 0
	for {
		if pos >= len(in) {
			return chunks, pos, ErrTruncated
		}
		c := in[pos]
		kind, ok := ChunkKind(c)
		if !ok {
			return chunks, pos, fmt.Errorf("ref: invalid LZMA2 control byte %#02x", c)
		}
		ch := Chunk{Control: c, Kind: kind, Offset: pos}
		if c == 0 {
			return append(chunks, ch), pos + 1, nil
		}
		if c < 0x80 {
			if len(in)-pos < 3 {
				return chunks, pos, ErrTruncated
			}
			n := (int(in[pos+1])<<8 | int(in[pos+2])) + 1
			ch.Unc, ch.Comp = n, n
			pos += 3 + n
		} else {
			hl := 5
			if c >= 0xC0 {
				hl = 6
			}
			if len(in)-pos < hl {
				return chunks, pos, ErrTruncated
			}
			ch.Unc = (int(c&0x1F)<<16 | int(in[pos+1])<<8 | int(in[pos+2])) + 1
			ch.Comp = (int(in[pos+3])<<8 | int(in[pos+4])) + 1
			pos += hl + ch.Comp
		}
		if pos > len(in) {
			return chunks, pos, ErrTruncated
		}
		chunks = append(chunks, ch)
	}
}

// WalkXZ follows the structure of a single .xz stream without decoding and
// returns the chunk kinds of every block.
func WalkXZ(in []byte) (blocks [][]Chunk, err error) {
	if len(in) < 12 {
		return nil, ErrTruncated
	}
	cs := CheckSize(in[7] & 0x0F)
	pos := 12
	for pos < len(in) && in[pos] != 0 {
		hs := (int(in[pos]) + 1) * 4
		pos += hs
		if pos > len(in) {
			return blocks, ErrTruncated
		}
		ch, n, e := WalkLZMA2(in[pos:])
		if e != nil {
			return blocks, e
		}
		blocks = append(blocks, ch)
		pos += n
		pos += (4 - n%4) % 4
		pos += cs
	}
	return blocks, nil
}
