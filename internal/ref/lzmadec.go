package ref

import (
	"errors"
	"fmt"
)

// Errors of the reference decoders.  ErrTruncated means the input ended where
// the format requires more bytes; every other error means malformed data.
var (
	ErrTruncated = errors.New("ref: input truncated")
	ErrLimit     = errors.New("ref: output limit reached")
)

type rangeDec struct {
	in    []byte
	pos   int
	end   int // exclusive limit of bytes this coder may consume
	rng   uint32
	code  uint32
	trunc bool
}

func (r *rangeDec) init() error {
	if r.end-r.pos < 5 {
		r.trunc = true
		return ErrTruncated
	}
	if r.in[r.pos] != 0 {
		return errors.New("ref: first byte of range coder data is not zero")
	}
	r.code = uint32(r.in[r.pos+1])<<24 | uint32(r.in[r.pos+2])<<16 | uint32(r.in[r.pos+3])<<8 | uint32(r.in[r.pos+4])
	r.rng = 0xFFFFFFFF
	r.pos += 5
	if r.code == r.rng {
		return errors.New("ref: range coder initial code invalid")
	}
	return nil
}

func (r *rangeDec) normalize() {
	if r.rng < topValue {
		if r.pos >= r.end {
			r.trunc = true
			r.rng <<= 8
			r.code <<= 8
			return
		}
		r.rng <<= 8
		r.code = r.code<<8 | uint32(r.in[r.pos])
		r.pos++
	}
}

func (r *rangeDec) bit(p *uint16) uint32 {
	r.normalize()
	bound := (r.rng >> numBitModel) * uint32(*p)
	if r.code < bound {
		r.rng = bound
		*p += (1<<numBitModel - *p) >> moveBits
		return 0
	}
	r.rng -= bound
	r.code -= bound
	*p -= *p >> moveBits
	return 1
}

func (r *rangeDec) direct(n int) uint32 {
	var res uint32
	for ; n > 0; n-- {
		r.normalize()
		r.rng >>= 1
		var b uint32
		if r.code >= r.rng {
			r.code -= r.rng
			b = 1
		}
		res = res<<1 | b
	}
	return res
}

func (r *rangeDec) tree(probs []uint16, bits int) uint32 {
	m := uint32(1)
	for i := 0; i < bits; i++ {
		m = m<<1 | r.bit(&probs[m])
	}
	return m - 1<<uint(bits)
}

func (r *rangeDec) revTree(probs []uint16, base int, bits int) uint32 {
	m := uint32(1)
	var sym uint32
	for i := 0; i < bits; i++ {
		b := r.bit(&probs[base+int(m)])
		m = m<<1 | b
		sym |= b << uint(i)
	}
	return sym
}

func (r *rangeDec) length(l *lenModel, posState uint32) int {
	if r.bit(&l.choice) == 0 {
		return int(r.tree(l.low[posState][:], 3))
	}
	if r.bit(&l.choice2) == 0 {
		return 8 + int(r.tree(l.mid[posState][:], 3))
	}
	return 16 + int(r.tree(l.high[:], 8))
}

// Window is the output of a decoder together with the dictionary bookkeeping.
type Window struct {
	Out       []byte
	DictStart int   // index in Out of the first byte after the last dictionary reset
	DictSize  int64 // declared dictionary size, applied exactly
	MaxOut    int   // stop with ErrLimit beyond this many output bytes (0 = no limit)
}

func (w *Window) avail() int64 { return int64(len(w.Out) - w.DictStart) }

// decodeLZMA decodes raw LZMA data from rc into w until unpack bytes have been
// produced (unpack >= 0) or the end marker is met.  allowMarker tells whether an
// end marker is legal.  It returns whether a marker terminated the data.
func decodeLZMA(rc *rangeDec, m *Model, w *Window, unpack int64, allowMarker bool, st *Stats) (marker bool, err error) {
	pbMask := uint32(1)<<uint(m.P.PB) - 1
	start := len(w.Out)
	for {
		if rc.trunc {
			return false, ErrTruncated
		}
		produced := int64(len(w.Out) - start)
		if unpack >= 0 && produced >= unpack {
			if produced > unpack {
				return false, errors.New("ref: match runs over the declared uncompressed size")
			}
			return false, nil
		}
		if w.MaxOut > 0 && len(w.Out) >= w.MaxOut {
			return false, ErrLimit
		}
		pos := uint32(w.avail())
		posState := pos & pbMask
		if rc.bit(&m.isMatch[m.State][posState]) == 0 {
			var prev byte
			if w.avail() > 0 {
				prev = w.Out[len(w.Out)-1]
			}
			probs := m.litProbs(pos, prev)
			sym := uint32(1)
			if m.State >= 7 {
				d := int64(m.Rep[0]) + 1
				if d > w.avail() {
					return false, errors.New("ref: matched literal refers before the dictionary start")
				}
				mb := uint32(w.Out[len(w.Out)-int(d)])
				st.MatchedLits++
				for sym < 0x100 {
					mbit := (mb >> 7) & 1
					mb <<= 1
					b := rc.bit(&probs[((1+mbit)<<8)+sym])
					sym = sym<<1 | b
					if mbit != b {
						break
					}
				}
			}
			for sym < 0x100 {
				sym = sym<<1 | rc.bit(&probs[sym])
			}
			if rc.trunc {
				return false, ErrTruncated
			}
			w.Out = append(w.Out, byte(sym))
			m.State = stateAfterLit(m.State)
			st.Lits++
			continue
		}
		var n int
		if rc.bit(&m.isRep[m.State]) == 0 {
			// simple match
			m.Rep[3], m.Rep[2], m.Rep[1] = m.Rep[2], m.Rep[1], m.Rep[0]
			n = rc.length(&m.lenM, posState)
			m.State = stateAfterMatch(m.State)
			ls := n
			if ls > 3 {
				ls = 3
			}
			slot := rc.tree(m.posSlot[ls][:], 6)
			var dist uint32
			if slot < 4 {
				dist = slot
			} else {
				nd := int(slot>>1) - 1
				dist = (2 | slot&1) << uint(nd)
				if slot < endPosModel {
					dist += rc.revTree(m.posSpec[:], int(dist)-int(slot)-1, nd)
				} else {
					dist += rc.direct(nd-4) << 4
					dist += rc.revTree(m.align[:], 0, 4)
				}
			}
			if rc.trunc {
				return false, ErrTruncated
			}
			m.Rep[0] = dist
			if dist == EOSDist {
				if !allowMarker {
					return false, errors.New("ref: end marker where none is allowed")
				}
				st.Marker = true
				return true, nil
			}
			st.Matches++
		} else {
			if w.avail() == 0 {
				return false, errors.New("ref: repeated match at the start of the dictionary")
			}
			if rc.bit(&m.isRepG0[m.State]) == 0 {
				if rc.bit(&m.isRep0Long[m.State][posState]) == 0 {
					if rc.trunc {
						return false, ErrTruncated
					}
					d := int64(m.Rep[0]) + 1
					if d > w.avail() || d > w.DictSize {
						return false, fmt.Errorf("ref: short rep distance %d out of range (available %d, dictionary %d)", d, w.avail(), w.DictSize)
					}
					w.Out = append(w.Out, w.Out[len(w.Out)-int(d)])
					m.State = stateAfterShortRep(m.State)
					st.ShortReps++
					if d > st.MaxDist {
						st.MaxDist = d
					}
					continue
				}
				st.Reps[0]++
			} else {
				var dist uint32
				if rc.bit(&m.isRepG1[m.State]) == 0 {
					dist = m.Rep[1]
					st.Reps[1]++
				} else {
					if rc.bit(&m.isRepG2[m.State]) == 0 {
						dist = m.Rep[2]
						st.Reps[2]++
					} else {
						dist = m.Rep[3]
						m.Rep[3] = m.Rep[2]
						st.Reps[3]++
					}
					m.Rep[2] = m.Rep[1]
				}
				m.Rep[1] = m.Rep[0]
				m.Rep[0] = dist
			}
			n = rc.length(&m.repLenM, posState)
			m.State = stateAfterRep(m.State)
		}
		if rc.trunc {
			return false, ErrTruncated
		}
		n += matchMinLen
		d := int64(m.Rep[0]) + 1
		if d > w.avail() || d > w.DictSize {
			return false, fmt.Errorf("ref: match distance %d out of range (available %d, dictionary %d)", d, w.avail(), w.DictSize)
		}
		if d == w.avail() {
			st.DistAtEdge++
		}
		if d > st.MaxDist {
			st.MaxDist = d
		}
		if n > st.MaxLen {
			st.MaxLen = n
		}
		if unpack >= 0 && int64(len(w.Out)-start)+int64(n) > unpack {
			return false, errors.New("ref: match runs over the declared uncompressed size")
		}
		for i := 0; i < n; i++ {
			w.Out = append(w.Out, w.Out[len(w.Out)-int(d)])
		}
	}
}

// AloneInfo describes a decoded classic .lzma stream.
type AloneInfo struct {
	Props     Props
	DictSize  uint32
	SizeField int64 // -1 = unknown (all ones)
	Marker    bool
	Consumed  int // bytes of the input that belong to the stream
	Stats     Stats
}

// DecodeAlone strictly decodes a classic .lzma stream (13-byte header).  Bytes
// after the end of the stream are not touched; Consumed tells where it ended.
func DecodeAlone(in []byte, maxOut int) (out []byte, info AloneInfo, err error) {
	if len(in) < 13 {
		return nil, info, ErrTruncated
	}
	p, err := PropsFromCode(in[0])
	if err != nil {
		return nil, info, err
	}
	info.Props = p
	info.DictSize = uint32(in[1]) | uint32(in[2])<<8 | uint32(in[3])<<16 | uint32(in[4])<<24
	var sz uint64
	for i := 0; i < 8; i++ {
		sz |= uint64(in[5+i]) << uint(8*i)
	}
	info.SizeField = int64(sz)
	if sz == 1<<64-1 {
		info.SizeField = -1
	} else if sz >= 1<<63 {
		return nil, info, errors.New("ref: size field out of range")
	}
	ds := int64(info.DictSize)
	if ds < 4096 {
		ds = 4096 // decoders use at least 4 KiB
	}
	w := &Window{DictSize: ds, MaxOut: maxOut}
	rc := &rangeDec{in: in, pos: 13, end: len(in)}
	if err = rc.init(); err != nil {
		return nil, info, err
	}
	m := NewModel(p)
	marker, err := decodeLZMA(rc, m, w, info.SizeField, true, &info.Stats)
	if err != nil {
		return w.Out, info, err
	}
	rc.normalize()
	if rc.trunc {
		return w.Out, info, ErrTruncated
	}
	if !marker && info.SizeField >= 0 && rc.code != 0 {
		// a marker may follow the announced number of bytes
		var st Stats
		mk, e := decodeLZMA(rc, m, w, -1, true, &st)
		if e != nil {
			return w.Out, info, e
		}
		if !mk || int64(len(w.Out)) != info.SizeField {
			return w.Out, info, errors.New("ref: data after the announced size is not an end marker")
		}
		marker = true
		rc.normalize()
		if rc.trunc {
			return w.Out, info, ErrTruncated
		}
	}
	if rc.code != 0 {
		return w.Out, info, errors.New("ref: range coder not finished at end of stream")
	}
	if info.SizeField < 0 && !marker {
		return w.Out, info, errors.New("ref: unknown size without end marker")
	}
	info.Marker = marker
	info.Consumed = rc.pos
	return w.Out, info, nil
}

// Chunk describes one LZMA2 chunk.
type Chunk struct {
	Control  byte
	Kind     string // "end","raw","rawD","L","LR","LRN","LRND"
	Unc      int
	Comp     int // payload bytes (compressed size or raw size)
	Offset   int
	Props    Props
	HasProps bool
}

// ChunkKind classifies a control byte; ok is false for the invalid values.
func ChunkKind(c byte) (kind string, ok bool) {
	switch {
	case c == 0:
		return "end", true
	case c == 1:
		return "rawD", true
	case c == 2:
		return "raw", true
	case c < 0x80:
		return "", false
	}
	switch (c >> 5) & 3 {
	case 0:
		return "L", true
	case 1:
		return "LR", true
	case 2:
		return "LRN", true
	}
	return "LRND", true
}

// LZMA2Info describes a decoded chunk sequence.
type LZMA2Info struct {
	Chunks   []Chunk
	Ended    bool // end chunk seen
	Consumed int
	Stats    Stats
	// BadChunk is the index of the chunk at which decoding failed (-1 none).
	BadChunk int
}

// DecodeLZMA2 strictly decodes an LZMA2 chunk sequence starting at in[0].  With
// open set, input that stops exactly at a chunk boundary before the end chunk is
// accepted (Ended=false); otherwise it is ErrTruncated.
func DecodeLZMA2(in []byte, dictSize int64, open bool, maxOut int) (out []byte, info LZMA2Info, err error) {
	w := &Window{DictSize: dictSize, MaxOut: maxOut}
	info.BadChunk = -1
	needDict, needProps := true, true
	var m *Model
	pos := 0
	fail := func(e error) ([]byte, LZMA2Info, error) {
		info.BadChunk = len(info.Chunks)
		info.Consumed = pos
		return w.Out, info, e
	}
	for {
		if pos >= len(in) {
			if open {
				info.Consumed = pos
				return w.Out, info, nil
			}
			return fail(ErrTruncated)
		}
		c := in[pos]
		kind, ok := ChunkKind(c)
		if !ok {
			return fail(fmt.Errorf("ref: invalid LZMA2 control byte %#02x", c))
		}
		ch := Chunk{Control: c, Kind: kind, Offset: pos}
		if c == 0 {
			info.Chunks = append(info.Chunks, ch)
			info.Ended = true
			info.Consumed = pos + 1
			return w.Out, info, nil
		}
		if c == 1 || c >= 0xE0 {
			needProps = true
			needDict = false
			w.DictStart = len(w.Out)
		} else if needDict {
			return fail(errors.New("ref: first LZMA2 chunk does not reset the dictionary"))
		}
		if c < 0x80 {
			if len(in)-pos < 3 {
				return fail(ErrTruncated)
			}
			n := (int(in[pos+1])<<8 | int(in[pos+2])) + 1
			if len(in)-pos-3 < n {
				// deliver what is there, the way a streaming decoder would
				w.Out = append(w.Out, in[pos+3:]...)
				return fail(ErrTruncated)
			}
			ch.Unc, ch.Comp = n, n
			w.Out = append(w.Out, in[pos+3:pos+3+n]...)
			pos += 3 + n
			info.Chunks = append(info.Chunks, ch)
			if maxOut > 0 && len(w.Out) >= maxOut {
				return fail(ErrLimit)
			}
			continue
		}
		hl := 5
		if c >= 0xC0 {
			hl = 6
		}
		if len(in)-pos < hl {
			return fail(ErrTruncated)
		}
		ch.Unc = (int(c&0x1F)<<16 | int(in[pos+1])<<8 | int(in[pos+2])) + 1
		ch.Comp = (int(in[pos+3])<<8 | int(in[pos+4])) + 1
		if c >= 0xC0 {
			p, e := PropsFromCode(in[pos+5])
			if e != nil {
				return fail(e)
			}
			if p.LC+p.LP > 4 {
				return fail(errors.New("ref: LZMA2 properties with lc+lp > 4"))
			}
			ch.Props, ch.HasProps = p, true
			m = NewModel(p)
			needProps = false
		} else if needProps {
			return fail(errors.New("ref: LZMA chunk without properties after dictionary reset"))
		} else if c >= 0xA0 {
			m.Reset()
		}
		body := pos + hl
		end := body + ch.Comp
		truncated := false
		if end > len(in) {
			end = len(in)
			truncated = true
		}
		rc := &rangeDec{in: in, pos: body, end: end}
		if e := rc.init(); e != nil {
			if truncated && e == ErrTruncated {
				return fail(ErrTruncated)
			}
			if e == ErrTruncated {
				e = errors.New("ref: compressed size of chunk smaller than 5")
			}
			return fail(e)
		}
		var st Stats
		_, e := decodeLZMA(rc, m, w, int64(ch.Unc), false, &st)
		info.Stats.Add(st)
		if e == nil {
			rc.normalize()
			if rc.trunc {
				e = ErrTruncated
			}
		}
		if e != nil {
			if e == ErrTruncated && !truncated {
				e = errors.New("ref: LZMA chunk needs more than its compressed size")
			}
			return fail(e)
		}
		if truncated {
			// all output produced from fewer bytes than the header announces
			return fail(ErrTruncated)
		}
		if rc.pos != end {
			return fail(fmt.Errorf("ref: LZMA chunk uses %d of %d compressed bytes", rc.pos-body, ch.Comp))
		}
		if rc.code != 0 {
			return fail(errors.New("ref: range coder not finished at end of chunk"))
		}
		pos = end
		info.Chunks = append(info.Chunks, ch)
	}
}
