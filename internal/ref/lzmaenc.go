package ref

import "fmt"

// rangeEnc is the standard LZMA range encoder (low/cache/cacheSize carry
// propagation), written from the format description.
type rangeEnc struct {
	low       uint64
	rng       uint32
	cache     byte
	cacheSize int64
	out       []byte
}

func newRangeEnc() *rangeEnc { return &rangeEnc{rng: 0xFFFFFFFF, cacheSize: 1} }

func (e *rangeEnc) shiftLow() {
	if uint32(e.low) < 0xFF000000 || e.low>>32 != 0 {
		c := e.cache
		for {
			e.out = append(e.out, c+byte(e.low>>32))
			c = 0xFF
			e.cacheSize--
			if e.cacheSize == 0 {
				break
			}
		}
		e.cache = byte(e.low >> 24)
	}
	e.cacheSize++
	e.low = (e.low & 0x00FFFFFF) << 8
}

func (e *rangeEnc) bit(p *uint16, b uint32) {
	bound := (e.rng >> numBitModel) * uint32(*p)
	if b == 0 {
		e.rng = bound
		*p += (1<<numBitModel - *p) >> moveBits
	} else {
		e.low += uint64(bound)
		e.rng -= bound
		*p -= *p >> moveBits
	}
	for e.rng < topValue {
		e.rng <<= 8
		e.shiftLow()
	}
}

func (e *rangeEnc) direct(v uint32, n int) {
	for i := n - 1; i >= 0; i-- {
		e.rng >>= 1
		if (v>>uint(i))&1 == 1 {
			e.low += uint64(e.rng)
		}
		for e.rng < topValue {
			e.rng <<= 8
			e.shiftLow()
		}
	}
}

func (e *rangeEnc) flush() {
	for i := 0; i < 5; i++ {
		e.shiftLow()
	}
}

// pending is the number of bytes the output will have after flush.
func (e *rangeEnc) pending() int { return len(e.out) + int(e.cacheSize) + 4 }

func (e *rangeEnc) tree(probs []uint16, bits int, sym uint32) {
	m := uint32(1)
	for i := bits - 1; i >= 0; i-- {
		b := (sym >> uint(i)) & 1
		e.bit(&probs[m], b)
		m = m<<1 | b
	}
}

func (e *rangeEnc) revTree(probs []uint16, base int, bits int, sym uint32) {
	m := uint32(1)
	for i := 0; i < bits; i++ {
		b := sym & 1
		sym >>= 1
		e.bit(&probs[base+int(m)], b)
		m = m<<1 | b
	}
}

func (e *rangeEnc) length(l *lenModel, posState uint32, n int) {
	switch {
	case n < 8:
		e.bit(&l.choice, 0)
		e.tree(l.low[posState][:], 3, uint32(n))
	case n < 16:
		e.bit(&l.choice, 1)
		e.bit(&l.choice2, 0)
		e.tree(l.mid[posState][:], 3, uint32(n-8))
	default:
		e.bit(&l.choice, 1)
		e.bit(&l.choice2, 1)
		e.tree(l.high[:], 8, uint32(n-16))
	}
}

// OpKind enumerates the LZMA operations.
type OpKind int

const (
	OpLit OpKind = iota
	OpMatch
	OpShortRep
	OpRep0
	OpRep1
	OpRep2
	OpRep3
)

var opNames = [...]string{"lit", "match", "shortrep", "rep0", "rep1", "rep2", "rep3"}

func (k OpKind) String() string { return opNames[k] }

// Op is one LZMA operation of a generated stream.
type Op struct {
	Kind OpKind
	Byte byte   // OpLit
	Dist uint32 // OpMatch: distance, 1-based
	Len  int    // matches and long reps: 2..273
}

// Encoder encodes an explicit operation list; it tracks the dictionary so the
// plaintext is known by construction.
type Encoder struct {
	M  *Model
	W  *Window // Out holds all plaintext so far (across chunks)
	rc *rangeEnc
	St Stats
}

func NewEncoder(m *Model, w *Window) *Encoder {
	return &Encoder{M: m, W: w, rc: newRangeEnc()}
}

// Restart begins a new range coder run (new LZMA2 chunk).
func (e *Encoder) Restart() { e.rc = newRangeEnc() }

// Pending is the size the current run has when finished now.
func (e *Encoder) Pending() int { return e.rc.pending() }

// Finish flushes the range coder and returns the bytes of the run.
func (e *Encoder) Finish() []byte {
	e.rc.flush()
	return e.rc.out
}

// Valid tells whether op can legally be applied in the current situation.
func (e *Encoder) Valid(op Op) error {
	av := e.W.avail()
	chk := func(d int64) error {
		if d < 1 || d > av || d > e.W.DictSize {
			return fmt.Errorf("distance %d not within available %d / dictionary %d", d, av, e.W.DictSize)
		}
		return nil
	}
	switch op.Kind {
	case OpLit:
		return nil
	case OpMatch:
		if op.Len < 2 || op.Len > MatchMaxLen {
			return fmt.Errorf("length %d", op.Len)
		}
		return chk(int64(op.Dist))
	case OpShortRep:
		return chk(int64(e.M.Rep[0]) + 1)
	default:
		if op.Len < 2 || op.Len > MatchMaxLen {
			return fmt.Errorf("length %d", op.Len)
		}
		return chk(int64(e.M.Rep[int(op.Kind-OpRep0)]) + 1)
	}
}

// Put encodes op and applies it to the window.
func (e *Encoder) Put(op Op) error {
	if err := e.Valid(op); err != nil {
		return err
	}
	m, w, rc := e.M, e.W, e.rc
	pbMask := uint32(1)<<uint(m.P.PB) - 1
	pos := uint32(w.avail())
	posState := pos & pbMask
	copyN := func(d int64, n int) {
		for i := 0; i < n; i++ {
			w.Out = append(w.Out, w.Out[len(w.Out)-int(d)])
		}
		if d > e.St.MaxDist {
			e.St.MaxDist = d
		}
		if n > e.St.MaxLen {
			e.St.MaxLen = n
		}
	}
	switch op.Kind {
	case OpLit:
		rc.bit(&m.isMatch[m.State][posState], 0)
		var prev byte
		if w.avail() > 0 {
			prev = w.Out[len(w.Out)-1]
		}
		probs := m.litProbs(pos, prev)
		sym := uint32(op.Byte) | 0x100
		if m.State >= 7 {
			mb := uint32(w.Out[len(w.Out)-int(m.Rep[0])-1])
			e.St.MatchedLits++
			offs := uint32(0x100)
			s := sym
			mm := uint32(1)
			for i := 7; i >= 0; i-- {
				mbit := (mb >> uint(i)) & 1
				b := (s >> uint(i)) & 1
				if offs != 0 {
					rc.bit(&probs[((1+mbit)<<8)+mm], b)
				} else {
					rc.bit(&probs[mm], b)
				}
				mm = mm<<1 | b
				if mbit != b {
					offs = 0
				}
			}
		} else {
			mm := uint32(1)
			for i := 7; i >= 0; i-- {
				b := (sym >> uint(i)) & 1
				rc.bit(&probs[mm], b)
				mm = mm<<1 | b
			}
		}
		w.Out = append(w.Out, op.Byte)
		m.State = stateAfterLit(m.State)
		e.St.Lits++
	case OpMatch:
		rc.bit(&m.isMatch[m.State][posState], 1)
		rc.bit(&m.isRep[m.State], 0)
		e.putMatchTail(op.Dist-1, op.Len, posState)
		copyN(int64(op.Dist), op.Len)
		e.St.Matches++
	case OpShortRep:
		rc.bit(&m.isMatch[m.State][posState], 1)
		rc.bit(&m.isRep[m.State], 1)
		rc.bit(&m.isRepG0[m.State], 0)
		rc.bit(&m.isRep0Long[m.State][posState], 0)
		m.State = stateAfterShortRep(m.State)
		copyN(int64(m.Rep[0])+1, 1)
		e.St.ShortReps++
	default:
		g := int(op.Kind - OpRep0)
		rc.bit(&m.isMatch[m.State][posState], 1)
		rc.bit(&m.isRep[m.State], 1)
		if g == 0 {
			rc.bit(&m.isRepG0[m.State], 0)
			rc.bit(&m.isRep0Long[m.State][posState], 1)
		} else {
			rc.bit(&m.isRepG0[m.State], 1)
			d := m.Rep[g]
			if g == 1 {
				rc.bit(&m.isRepG1[m.State], 0)
			} else {
				rc.bit(&m.isRepG1[m.State], 1)
				if g == 2 {
					rc.bit(&m.isRepG2[m.State], 0)
				} else {
					rc.bit(&m.isRepG2[m.State], 1)
					m.Rep[3] = m.Rep[2]
				}
				m.Rep[2] = m.Rep[1]
			}
			m.Rep[1] = m.Rep[0]
			m.Rep[0] = d
		}
		rc.length(&m.repLenM, posState, op.Len-matchMinLen)
		m.State = stateAfterRep(m.State)
		copyN(int64(m.Rep[0])+1, op.Len)
		e.St.Reps[g]++
	}
	return nil
}

// putMatchTail encodes length and distance of a simple match (dist is 0-based)
// and updates rep history and state.
func (e *Encoder) putMatchTail(dist uint32, n int, posState uint32) {
	m, rc := e.M, e.rc
	m.Rep[3], m.Rep[2], m.Rep[1], m.Rep[0] = m.Rep[2], m.Rep[1], m.Rep[0], dist
	rc.length(&m.lenM, posState, n-matchMinLen)
	m.State = stateAfterMatch(m.State)
	ls := n - matchMinLen
	if ls > 3 {
		ls = 3
	}
	// position slot
	var slot uint32
	if dist < 4 {
		slot = dist
	} else {
		nb := uint32(0)
		for d := dist; d > 1; d >>= 1 {
			nb++
		}
		slot = nb<<1 | (dist>>(nb-1))&1
	}
	rc.tree(m.posSlot[ls][:], 6, slot)
	if slot >= 4 {
		nd := int(slot>>1) - 1
		base := (2 | slot&1) << uint(nd)
		red := dist - base
		if slot < endPosModel {
			rc.revTree(m.posSpec[:], int(base)-int(slot)-1, nd, red)
		} else {
			rc.direct(red>>4, nd-4)
			rc.revTree(m.align[:], 0, 4, red&15)
		}
	}
}

// PutMarker encodes the end marker.
func (e *Encoder) PutMarker() { e.PutMarkerLen(matchMinLen) }

// PutMarkerLen encodes the end marker with a length field of n (2..273): the marker is the
// match with distance 2^32-1 whatever its length, although encoders in the field write 2.
func (e *Encoder) PutMarkerLen(n int) {
	m := e.M
	pbMask := uint32(1)<<uint(m.P.PB) - 1
	posState := uint32(e.W.avail()) & pbMask
	e.rc.bit(&m.isMatch[m.State][posState], 1)
	e.rc.bit(&m.isRep[m.State], 0)
	e.putMatchTail(EOSDist, n, posState)
	e.St.Marker = true
}

// AloneHeader builds the 13-byte .lzma header; size < 0 = unknown.
func AloneHeader(p Props, dict uint32, size int64) []byte {
	b := make([]byte, 13)
	b[0] = p.Code()
	b[1], b[2], b[3], b[4] = byte(dict), byte(dict>>8), byte(dict>>16), byte(dict>>24)
	s := uint64(size)
	if size < 0 {
		s = 1<<64 - 1
	}
	for i := 0; i < 8; i++ {
		b[5+i] = byte(s >> uint(8*i))
	}
	return b
}

// LZMA2ChunkHeader builds a chunk header for an LZMA chunk (control >= 0x80).
func LZMA2ChunkHeader(kind string, unc, comp int, p Props) []byte {
	var c byte
	switch kind {
	case "L":
		c = 0x80
	case "LR":
		c = 0xA0
	case "LRN":
		c = 0xC0
	case "LRND":
		c = 0xE0
	}
	u := unc - 1
	k := comp - 1
	b := []byte{c | byte(u>>16), byte(u >> 8), byte(u), byte(k >> 8), byte(k)}
	if c >= 0xC0 {
		b = append(b, p.Code())
	}
	return b
}

// LZMA2RawHeader builds the header of an uncompressed chunk.
func LZMA2RawHeader(dictReset bool, n int) []byte {
	c := byte(2)
	if dictReset {
		c = 1
	}
	return []byte{c, byte((n - 1) >> 8), byte(n - 1)}
}
