package ref

import "verif/internal/prng"

// CarryInfo describes what GenCarryData reached in the reference range coder.
type CarryInfo struct {
	MaxPending  int64 // longest run of bytes held back at the same time (cache byte + 0xff bytes)
	WithCarry   int   // runs that were resolved by a carry (.. ff ff ff -> .. 00 00 00)
	NoCarry     int   // runs resolved without
	Compressed  int   // size of the reference encoding (literals only)
	RunStartsAt []int // compressed offsets at which the runs began
}

// simLit codes literal c read-only (no probability or window update) on a copy of the range
// coder and returns the copy: cacheSize tells how many bytes are held back afterwards, out
// holds what the literal made the coder emit.
func (e *Encoder) simLit(c byte) rangeEnc {
	m, w := e.M, e.W
	t := *e.rc
	t.out = nil
	pos := uint32(w.avail())
	posState := pos & (uint32(1)<<uint(m.P.PB) - 1)
	p := m.isMatch[m.State][posState]
	t.bit(&p, 0)
	var prev byte
	if w.avail() > 0 {
		prev = w.Out[len(w.Out)-1]
	}
	probs := m.litProbs(pos, prev)
	sym := uint32(c) | 0x100
	mm := uint32(1)
	for i := 7; i >= 0; i-- {
		b := (sym >> uint(i)) & 1
		q := probs[mm]
		t.bit(&q, b)
		mm = mm<<1 | b
	}
	return t
}

// GenCarryData builds content whose LZMA encoding as a plain sequence of literals drives the
// range coder into long runs of held-back bytes: the coded interval keeps straddling a value
// Q 00 00 00 .., so that Q-1 ff ff ff .. cannot be emitted until the interval falls on one
// side - with a carry through all the held-back bytes, or without.  Such states have a
// probability of about 256^-k for k bytes on ordinary data; here every next byte is chosen,
// among the 256 values, as the one that keeps the run alive, and the run is ended on the
// wanted side.  No pair of neighbouring bytes occurs twice and no byte equals its
// predecessor, so an encoder has nothing but literals to choose from and reproduces the
// reference arithmetic exactly.  lead random bytes come first (a negative lead means: as many
// as it takes to reach -lead compressed bytes), then nruns runs of up to runLen held-back
// bytes, separated by gap random bytes.  For content of more than a few thousand bytes
// all-distinct pairs are impossible; then (relaxed) no four bytes occur twice and no pair
// occurs twice within eight bytes, which leaves nothing to the hash-table matcher.
func GenCarryData(r *prng.R, p Props, lead, nruns, runLen, gap int, carry bool) ([]byte, CarryInfo) {
	return GenCarryDataAlpha(r, p, lead, nruns, runLen, gap, carry, 256)
}

// GenCarryDataAlpha: the random bytes outside the runs are drawn from an alphabet of alpha
// values; with 64 the literals compress to three quarters, so that an LZMA2 writer keeps
// the encoding instead of storing the chunk uncompressed.
func GenCarryDataAlpha(r *prng.R, p Props, lead, nruns, runLen, gap int, carry bool, alpha int) ([]byte, CarryInfo) {
	var info CarryInfo
	w := &Window{DictSize: 1 << 20}
	enc := NewEncoder(NewModel(p), w)
	relaxed := lead < 0 || lead+nruns*(40*runLen+gap) > 2500
	seen := make([]bool, 1<<16)
	seen4 := map[uint32]bool{}
	allowed := func(c byte) bool {
		o := w.Out
		n := len(o)
		if n == 0 {
			return true
		}
		prev := o[n-1]
		if c == prev {
			return false
		}
		if !relaxed {
			return !seen[int(prev)<<8|int(c)]
		}
		for d := 2; d <= 9 && n-d >= 0; d++ {
			if o[n-d] == prev && o[n-d+1] == c {
				return false
			}
		}
		if n >= 3 && seen4[uint32(o[n-3])<<24|uint32(o[n-2])<<16|uint32(prev)<<8|uint32(c)] {
			return false
		}
		return true
	}
	put := func(c byte) {
		o := w.Out
		if n := len(o); n > 0 {
			seen[int(o[n-1])<<8|int(c)] = true
			if n >= 3 {
				seen4[uint32(o[n-3])<<24|uint32(o[n-2])<<16|uint32(o[n-1])<<8|uint32(c)] = true
			}
		}
		enc.Put(Op{Kind: OpLit, Byte: c})
	}
	random := func(n int) {
		for i := 0; i < n; i++ {
			c := byte(0x30 + r.Intn(alpha))
			for k := 0; k < 256 && !allowed(c); k++ {
				c = byte(0x30 + r.Intn(alpha))
			}
			if !allowed(c) {
				return
			}
			put(c)
		}
	}
	if lead < 0 {
		for enc.Pending() < -lead {
			random(1)
		}
	} else {
		random(lead)
	}
	for run := 0; run < nruns; run++ {
		start := len(enc.rc.out)
		for step := 0; step < 40*runLen+200; step++ {
			// the candidate that leaves most bytes held back
			best, bestC, found := int64(-1), byte(0), false
			off := byte(r.U64())
			for k := 0; k < 256; k++ {
				c := off + byte(k)
				if !allowed(c) {
					continue
				}
				t := enc.simLit(c)
				// an interval that really contains the value Q 00 00 .. can stay undecided for
				// long; one that merely ends close below it cannot
				score := 2 * t.cacheSize
				if t.low < 1<<32 && t.low+uint64(t.rng) > 1<<32 {
					score++
				}
				if score > best {
					best, bestC, found = score, c, true
				}
			}
			if !found {
				break
			}
			best /= 2
			if best > info.MaxPending {
				info.MaxPending = best
			}
			if best >= int64(runLen) || (best < enc.rc.cacheSize && enc.rc.cacheSize > 3) {
				// long enough (or it cannot be kept alive): end it on the wanted side
				if enc.rc.cacheSize > 2 {
					resolved := false
					for k := 0; k < 256 && !resolved; k++ {
						c := off + byte(k)
						if !allowed(c) {
							continue
						}
						t := enc.simLit(c)
						if len(t.out) < 2 {
							continue
						}
						if (t.out[1] == 0) == carry {
							put(c)
							resolved = true
							if carry {
								info.WithCarry++
							} else {
								info.NoCarry++
							}
						}
					}
					if resolved {
						info.RunStartsAt = append(info.RunStartsAt, start)
						break
					}
				}
			}
			put(bestC)
		}
		random(gap)
	}
	info.Compressed = enc.Pending()
	return append([]byte(nil), w.Out...), info
}
