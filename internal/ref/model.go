// Package ref is an independent implementation of the LZMA, LZMA2 and .xz
// formats written from the format descriptions (xz-file-format 1.0.4, the LZMA
// specification / reference decoder structure, LZMA2 as implemented by liblzma and
// xz-embedded).  It imports nothing from github.com/ulikunitz/xz: it is the
// oracle the library is compared with.  The decoders are strict (they reject
// everything the formats do not allow); the encoder is a generator driven by an
// explicit operation list.
package ref

import "fmt"

const (
	numStates     = 12
	posStatesMax  = 16
	probInit      = 1024
	numBitModel   = 11
	moveBits      = 5
	topValue      = 1 << 24
	matchMinLen   = 2
	MatchMaxLen   = 273
	endPosModel   = 14
	numFullDist   = 128
	EOSDist       = 0xFFFFFFFF // rep0 value (distance-1) of the end marker
	MaxLZMA2Unc   = 1 << 21
	MaxLZMA2Comp  = 1 << 16
	MaxLZMA2RawSz = 1 << 16
)

// Props are the LZMA literal-context, literal-position and position bits.
type Props struct{ LC, LP, PB int }

func (p Props) Code() byte { return byte((p.PB*5+p.LP)*9 + p.LC) }

func PropsFromCode(c byte) (Props, error) {
	if c > 224 {
		return Props{}, fmt.Errorf("properties byte %d > 224", c)
	}
	var p Props
	p.LC = int(c % 9)
	c /= 9
	p.LP = int(c % 5)
	p.PB = int(c / 5)
	return p, nil
}

type lenModel struct {
	choice, choice2 uint16
	low             [posStatesMax][8]uint16
	mid             [posStatesMax][8]uint16
	high            [256]uint16
}

func (l *lenModel) init() {
	l.choice, l.choice2 = probInit, probInit
	for i := range l.low {
		for j := range l.low[i] {
			l.low[i][j] = probInit
			l.mid[i][j] = probInit
		}
	}
	for i := range l.high {
		l.high[i] = probInit
	}
}

// Model is the adaptive probability model plus the coder state (state machine
// value and the four repeat distances) shared by decoding and encoding.
type Model struct {
	P          Props
	lit        []uint16
	isMatch    [numStates][posStatesMax]uint16
	isRep      [numStates]uint16
	isRepG0    [numStates]uint16
	isRepG1    [numStates]uint16
	isRepG2    [numStates]uint16
	isRep0Long [numStates][posStatesMax]uint16
	posSlot    [4][64]uint16
	posSpec    [1 + numFullDist - endPosModel]uint16
	align      [16]uint16
	lenM       lenModel
	repLenM    lenModel
	State      int
	Rep        [4]uint32
}

func NewModel(p Props) *Model {
	m := &Model{P: p}
	m.lit = make([]uint16, 0x300<<uint(p.LC+p.LP))
	m.Reset()
	return m
}

// Reset is the LZMA "state reset": probabilities, state and repeat distances.
func (m *Model) Reset() {
	for i := range m.lit {
		m.lit[i] = probInit
	}
	for i := 0; i < numStates; i++ {
		for j := 0; j < posStatesMax; j++ {
			m.isMatch[i][j] = probInit
			m.isRep0Long[i][j] = probInit
		}
		m.isRep[i] = probInit
		m.isRepG0[i] = probInit
		m.isRepG1[i] = probInit
		m.isRepG2[i] = probInit
	}
	for i := range m.posSlot {
		for j := range m.posSlot[i] {
			m.posSlot[i][j] = probInit
		}
	}
	for i := range m.posSpec {
		m.posSpec[i] = probInit
	}
	for i := range m.align {
		m.align[i] = probInit
	}
	m.lenM.init()
	m.repLenM.init()
	m.State = 0
	m.Rep = [4]uint32{}
}

func (m *Model) Clone() *Model {
	c := *m
	c.lit = append([]uint16(nil), m.lit...)
	return &c
}

func (m *Model) litProbs(pos uint32, prev byte) []uint16 {
	lp, lc := uint(m.P.LP), uint(m.P.LC)
	i := ((pos & (1<<lp - 1)) << lc) + uint32(prev)>>(8-lc)
	return m.lit[0x300*i : 0x300*(i+1)]
}

func stateAfterLit(s int) int {
	switch {
	case s < 4:
		return 0
	case s < 10:
		return s - 3
	}
	return s - 6
}
func stateAfterMatch(s int) int {
	if s < 7 {
		return 7
	}
	return 10
}
func stateAfterRep(s int) int {
	if s < 7 {
		return 8
	}
	return 11
}
func stateAfterShortRep(s int) int {
	if s < 7 {
		return 9
	}
	return 11
}

// Stats records what a decoded (or encoded) LZMA stream contained.
type Stats struct {
	Lits, Matches, ShortReps int
	Reps                     [4]int
	MaxDist                  int64 // largest distance used (1-based)
	MaxLen                   int
	DistAtEdge               int  // matches whose distance equals all bytes available
	Marker                   bool // end marker seen
	MatchedLits              int  // literals coded in "matched" mode
}

func (s *Stats) Add(o Stats) {
	s.Lits += o.Lits
	s.Matches += o.Matches
	s.ShortReps += o.ShortReps
	for i := range s.Reps {
		s.Reps[i] += o.Reps[i]
	}
	if o.MaxDist > s.MaxDist {
		s.MaxDist = o.MaxDist
	}
	if o.MaxLen > s.MaxLen {
		s.MaxLen = o.MaxLen
	}
	s.DistAtEdge += o.DistAtEdge
	s.Marker = s.Marker || o.Marker
	s.MatchedLits += o.MatchedLits
}

// DictSizeTable lists the 41 dictionary sizes an LZMA2 property byte can state.
func DictSizeForCode(c byte) (int64, bool) {
	if c > 40 {
		return 0, false
	}
	if c == 40 {
		return 1<<32 - 1, true
	}
	return int64(2|c&1) << uint(c/2+11), true
}
