package ref

import (
	"fmt"

	"verif/internal/prng"
)

// GenInfo describes a generated stream.
type GenInfo struct {
	Chunks   []string // chunk kinds in order (LZMA2)
	Stats    Stats
	OpCount  int
	DictSize int64
	Props    []Props
}

// randProps draws lc/lp/pb; lzma2 restricts lc+lp <= 4.
func randProps(r *prng.R, lzma2 bool) Props {
	for {
		p := Props{LC: r.Intn(9), LP: r.Intn(5), PB: r.Intn(5)}
		if r.Chance(1, 4) {
			p = Props{3, 0, 2}
		}
		if !lzma2 || p.LC+p.LP <= 4 {
			return p
		}
	}
}

// genOps feeds nops random legal operations to enc; it stops early when stop()
// says so.  The operation mix is biased towards constructs greedy encoders
// never emit: rep1-3 chains, short reps, distances at the window edge,
// overlapping copies, maximal lengths.
func genOps(r *prng.R, enc *Encoder, nops int, maxUnc int, stop func() bool) int {
	w := enc.W
	start := len(w.Out)
	style := r.Intn(5) // 0 mixed, 1 literal heavy, 2 match heavy, 3 rep heavy, 4 long matches
	n := 0
	for ; n < nops; n++ {
		if stop != nil && stop() {
			break
		}
		room := maxUnc - (len(w.Out) - start)
		if room <= 0 {
			break
		}
		av := w.avail()
		lim := av
		if lim > w.DictSize {
			lim = w.DictSize
		}
		var op Op
		k := r.Intn(100)
		switch style {
		case 1:
			if k < 70 {
				k = 0
			}
		case 2:
			if k < 60 {
				k = 40
			}
		case 3:
			if k < 60 {
				k = 70 + r.Intn(30)
			}
		case 4:
			if k < 50 {
				k = 40
			}
		}
		pickLen := func() int {
			var l int
			switch r.Intn(6) {
			case 0:
				l = 2
			case 1:
				l = MatchMaxLen
			case 2:
				l = r.Range(2, 9)
			case 3:
				l = r.Range(10, 17)
			case 4:
				l = r.Range(18, MatchMaxLen)
			default:
				l = r.Range(2, 40)
			}
			if style == 4 && r.Bool() {
				l = r.Range(200, MatchMaxLen)
			}
			if l > room {
				l = room
			}
			return l
		}
		switch {
		case lim == 0 || k < 35 || room < 2:
			b := byte(r.U64())
			if r.Chance(1, 3) {
				b = byte(r.Intn(4))
			}
			if lim > 0 && r.Chance(1, 5) {
				// a literal equal to the byte at rep0 (legal, encoders avoid it)
				d := int64(enc.M.Rep[0]) + 1
				if d <= av {
					b = w.Out[len(w.Out)-int(d)]
				}
			}
			op = Op{Kind: OpLit, Byte: b}
		case k < 70:
			var d int64
			switch r.Intn(7) {
			case 0:
				d = lim // the window edge / the very first byte
			case 1:
				d = 1
			case 2:
				d = int64(r.Range(1, 16))
			case 3:
				d = lim - int64(r.Intn(4))
			case 4:
				// powers of two and neighbours: slot boundaries
				d = int64(1)<<uint(r.Intn(32)) + int64(r.Intn(3)) - 1
			default:
				d = 1 + int64(r.U64()%uint64(lim))
			}
			if d < 1 {
				d = 1
			}
			if d > lim {
				d = lim
			}
			op = Op{Kind: OpMatch, Dist: uint32(d), Len: pickLen()}
		case k < 78:
			op = Op{Kind: OpShortRep}
		default:
			op = Op{Kind: OpRep0 + OpKind(r.Intn(4)), Len: pickLen()}
		}
		if enc.Valid(op) != nil {
			op = Op{Kind: OpLit, Byte: byte(r.U64())}
		}
		if err := enc.Put(op); err != nil {
			panic(fmt.Sprintf("ref generator: %v", err))
		}
	}
	return n
}

// GenAlone generates a valid classic .lzma stream.  mode: 0 marker only,
// 1 size only, 2 size and marker.
func GenAlone(r *prng.R, mode int, nops int) (stream, content []byte, info GenInfo) {
	p := randProps(r, false)
	dict := uint32(r.Pick(4096, 4096, 8192, 65536, 1<<20, 5000, 100, 0, 1<<16+1))
	eff := int64(dict)
	if eff < 4096 {
		eff = 4096
	}
	w := &Window{DictSize: eff}
	enc := NewEncoder(NewModel(p), w)
	info.OpCount = genOps(r, enc, nops, 1<<30, nil)
	if mode != 1 {
		enc.PutMarkerLen(r.Pick(2, 2, 2, 3, 9, 10, 18, 273, r.Range(2, 273)))
	}
	body := enc.Finish()
	size := int64(-1)
	if mode != 0 {
		size = int64(len(w.Out))
	}
	stream = append(AloneHeader(p, dict, size), body...)
	info.Stats = enc.St
	info.DictSize = eff
	info.Props = []Props{p}
	return stream, w.Out, info
}

// LZMA2Plan steers GenLZMA2.
type LZMA2Plan struct {
	DictSize  int64
	NChunks   int
	OpsPer    int  // upper bound of operations per LZMA chunk
	BigChunk  bool // drive one chunk towards the 64 KiB / 2 MiB limits
	NoEnd     bool // omit the end chunk
	FixedProp *Props
}

// GenLZMA2 generates a legal LZMA2 chunk sequence (ending with the end chunk
// unless plan.NoEnd).
func GenLZMA2(r *prng.R, plan LZMA2Plan) (stream, content []byte, info GenInfo) {
	w := &Window{DictSize: plan.DictSize}
	info.DictSize = plan.DictSize
	var enc *Encoder
	needDict, needProps := true, true
	for ci := 0; ci < plan.NChunks; ci++ {
		// choose a kind the format allows here
		var kinds []string
		switch {
		case needDict:
			kinds = []string{"LRND", "LRND", "rawD"}
		case needProps:
			kinds = []string{"LRN", "LRND", "raw", "rawD", "LRN"}
		default:
			kinds = []string{"L", "L", "L", "LR", "LRN", "LRND", "raw", "rawD", "L"}
		}
		kind := kinds[r.Intn(len(kinds))]
		info.Chunks = append(info.Chunks, kind)
		if kind == "raw" || kind == "rawD" {
			if kind == "rawD" {
				w.DictStart = len(w.Out)
				needDict, needProps = false, true
			}
			n := r.Pick(1, 2, 3, r.Range(1, 300), r.Range(1, 5000))
			if plan.BigChunk && r.Chance(1, 3) {
				n = r.Pick(65536, 65535, r.Range(30000, 65536))
			}
			b := make([]byte, n)
			if r.Bool() {
				r.Bytes(b)
			} else {
				for i := range b {
					b[i] = byte(r.Intn(3))
				}
			}
			w.Out = append(w.Out, b...)
			stream = append(stream, LZMA2RawHeader(kind == "rawD", n)...)
			stream = append(stream, b...)
			continue
		}
		switch kind {
		case "LRND", "LRN":
			p := randProps(r, true)
			if plan.FixedProp != nil {
				p = *plan.FixedProp
			}
			info.Props = append(info.Props, p)
			if kind == "LRND" {
				w.DictStart = len(w.Out)
			}
			enc = &Encoder{M: NewModel(p), W: w, St: statsOf(enc)}
			needDict, needProps = false, false
		case "LR":
			enc.M.Reset()
		}
		enc.Restart()
		nops := r.Range(1, max(1, plan.OpsPer))
		maxUnc := MaxLZMA2Unc
		if plan.BigChunk && ci == plan.NChunks/2 {
			nops = 1 << 30
			if r.Bool() {
				// literal heavy: reach the compressed limit
				maxUnc = r.Pick(MaxLZMA2Unc, 70000, 200000)
			}
		}
		e := enc
		startUnc := len(w.Out)
		n := genOps(r, e, nops, maxUnc, func() bool { return e.Pending() > MaxLZMA2Comp-40 })
		info.OpCount += n
		body := enc.Finish()
		unc := len(w.Out) - startUnc
		stream = append(stream, LZMA2ChunkHeader(kind, unc, len(body), enc.M.P)...)
		stream = append(stream, body...)
	}
	if !plan.NoEnd {
		stream = append(stream, 0)
		info.Chunks = append(info.Chunks, "end")
	}
	if enc != nil {
		info.Stats = enc.St
	}
	return stream, w.Out, info
}

func statsOf(e *Encoder) Stats {
	if e == nil {
		return Stats{}
	}
	return e.St
}

// GenFarLZMA2 generates a legal LZMA2 stream whose matches reach distances up
// to maxDist (powers of two, their neighbours and the 3*2^k values), i.e. it
// walks through all distance slots a window of that size can use.  The filler
// between the probes is a cheap period-4 repetition.
func GenFarLZMA2(r *prng.R, maxDist int64) (stream, content []byte, probes int) {
	return GenFarLZMA2Fill(r, maxDist, "rep")
}

// GenFarLZMA2Fill is GenFarLZMA2 with a choice of filler: "rep" (period-4 repetition in LZMA
// chunks), "raw" (uncompressed chunks of random bytes wherever 64 KiB fit in front of the next
// probe) or "mixed" (either, chosen per 64 KiB).  With raw filler the dictionary is mostly
// written by the uncompressed-chunk path and the probes then reach back across it.
func GenFarLZMA2Fill(r *prng.R, maxDist int64, fill string) (stream, content []byte, probes int) {
	w := &Window{DictSize: maxDist}
	p := Props{LC: r.Intn(4), LP: 0, PB: r.Intn(5)}
	enc := NewEncoder(NewModel(p), w)
	var todo []int64
	for k := uint(3); int64(1)<<k <= maxDist; k++ {
		for _, d := range []int64{1<<k - 1, 1 << k, 1<<k + 1, 3 << (k - 1)} {
			if d <= maxDist {
				todo = append(todo, d)
			}
		}
	}
	// with raw filler the probes are shifted by a lead so that the positions 2^k of the
	// content are crossed by filler, not by the probes themselves
	var lead int64
	if fill != "rep" {
		lead = int64(r.Range(70000, 400000))
	}
	first := true
	flush := func(start int) {
		body := enc.Finish()
		kind := "L"
		if first {
			kind = "LRND"
			first = false
		}
		stream = append(stream, LZMA2ChunkHeader(kind, len(w.Out)-start, len(body), p)...)
		stream = append(stream, body...)
		enc.Restart()
	}
	start := 0
	for i := 0; i < 8; i++ {
		enc.Put(Op{Kind: OpLit, Byte: byte(r.U64())})
	}
	ti := 0
	for ti < len(todo) {
		if len(w.Out)-start > MaxLZMA2Unc-600 || enc.Pending() > MaxLZMA2Comp-100 {
			flush(start)
			start = len(w.Out)
		}
		if int64(len(w.Out)) >= todo[ti]+lead {
			enc.Put(Op{Kind: OpMatch, Dist: uint32(todo[ti]), Len: r.Range(2, 9)})
			enc.Put(Op{Kind: OpLit, Byte: byte(r.U64())})
			probes++
			ti++
			continue
		}
		if rem := todo[ti] + lead - int64(len(w.Out)); fill != "rep" && rem > 66000 && (fill == "raw" || r.Chance(1, 3)) {
			if len(w.Out)-start > 0 {
				flush(start)
			}
			raw := make([]byte, r.Pick(65536, 65536, 65536, 65535, 1, 40000))
			r.Bytes(raw)
			w.Out = append(w.Out, raw...)
			stream = append(stream, LZMA2RawHeader(false, len(raw))...)
			stream = append(stream, raw...)
			start = len(w.Out)
			continue
		}
		enc.Put(Op{Kind: OpMatch, Dist: uint32(r.Pick(4, 4, 8)), Len: MatchMaxLen})
	}
	if len(w.Out)-start > 0 {
		flush(start)
	}
	stream = append(stream, 0)
	return stream, w.Out, probes
}

// GenFullChunk builds an LZMA2 stream whose first chunk (LZMA, dictionary reset, new
// properties) has a compressed size of exactly target bytes - the format maximum is 65536, a
// value real encoders reach rarely and this library's own writer never - followed by a small
// uncompressed chunk, a small LZMA chunk and the end chunk.  The first chunk consists of random
// literals (a little more than one output byte each), so its size grows in steps of one and
// the target is hit exactly; ok is false when a step skipped it (the caller tries another seed).
func GenFullChunk(r *prng.R, target int, dictSize int64) (stream, content []byte, ok bool) {
	w := &Window{DictSize: dictSize}
	p := Props{LC: r.Intn(4), LP: 0, PB: r.Intn(3)}
	enc := &Encoder{M: NewModel(p), W: w}
	enc.Restart()
	for enc.Pending() < target {
		if enc.Put(Op{Kind: OpLit, Byte: byte(r.U64())}) != nil {
			return nil, nil, false
		}
	}
	if enc.Pending() != target || len(w.Out) > MaxLZMA2Unc {
		return nil, nil, false
	}
	unc := len(w.Out)
	body := enc.Finish()
	if len(body) != target {
		return nil, nil, false
	}
	stream = append(stream, LZMA2ChunkHeader("LRND", unc, len(body), p)...)
	stream = append(stream, body...)
	raw := make([]byte, r.Range(1, 40))
	r.Bytes(raw)
	w.Out = append(w.Out, raw...)
	stream = append(stream, LZMA2RawHeader(false, len(raw))...)
	stream = append(stream, raw...)
	enc.Restart()
	start := len(w.Out)
	for i := 0; i < 30; i++ {
		enc.Put(Op{Kind: OpLit, Byte: byte('a' + r.Intn(26))})
	}
	body = enc.Finish()
	stream = append(stream, LZMA2ChunkHeader("L", len(w.Out)-start, len(body), p)...)
	stream = append(stream, body...)
	stream = append(stream, 0)
	return stream, w.Out, true
}
