package mon

import (
	"bufio"
	"bytes"
	"io"
	"os"
	"path/filepath"
	"strings"
)

// SourceKinds are the concrete things a reader of the library is connected to in production,
// as opposed to the harness's own Source type: the standard library's in-memory readers,
// buffered readers of several sizes over a source that delivers in pieces (so that the
// buffer is empty at arbitrary places), a real *os.File, and a synchronous io.Pipe fed by
// another goroutine ("pipe0": with zero-length writes in between, which arrive as (0, nil)
// reads - legal for an io.Reader).
var SourceKinds = []string{"bytes.Reader", "bytes.Buffer", "strings.Reader", "bufio16", "bufio4096", "bufio-exact", "file", "pipe", "pipe0"}

// OpenSource returns a source of the named kind delivering in, and a function that
// releases it (must be called; it ends the feeding goroutine of pipes and closes files).
// Without a usable temporary directory "file" falls back to a buffered reader.
func OpenSource(kind string, in []byte, seed uint64) (io.Reader, func()) {
	none := func() {}
	x := seed | 1
	next := func(max int) int {
		x ^= x << 13
		x ^= x >> 7
		x ^= x << 17
		return 1 + int(x%uint64(max))
	}
	pieces := func() io.Reader {
		s := NewSource(in)
		s.Frag = "short"
		s.Next = func(int) int { return next(700) }
		return struct{ io.Reader }{s}
	}
	switch kind {
	case "bytes.Buffer":
		return bytes.NewBuffer(append([]byte(nil), in...)), none
	case "strings.Reader":
		return strings.NewReader(string(in)), none
	case "bufio16":
		return bufio.NewReaderSize(pieces(), 16), none
	case "bufio4096":
		return bufio.NewReaderSize(pieces(), 4096), none
	case "bufio-exact":
		// the underlying reader hands over everything in one piece and the buffer is as large
		// as the data: after the last byte the buffer is empty although nothing signalled EOF
		n := len(in)
		if n < 16 {
			n = 16
		}
		return bufio.NewReaderSize(struct{ io.Reader }{bytes.NewReader(in)}, n), none
	case "file":
		dir := filepath.Join(os.Getenv("VERIF_DIR"), ".work", "tmp")
		if os.MkdirAll(dir, 0o755) == nil {
			if f, err := os.CreateTemp(dir, "src-*"); err == nil {
				os.Remove(f.Name())
				if _, err := f.Write(in); err == nil {
					if _, err := f.Seek(0, 0); err == nil {
						return f, func() { f.Close() }
					}
				}
				f.Close()
			}
		}
		return bufio.NewReaderSize(pieces(), 512), none
	case "pipe", "pipe0":
		pr, pw := io.Pipe()
		go func() {
			for off := 0; off < len(in); {
				n := next(3000)
				if off+n > len(in) {
					n = len(in) - off
				}
				if kind == "pipe0" && x%3 == 0 {
					if _, err := pw.Write(nil); err != nil {
						return
					}
				}
				if _, err := pw.Write(in[off : off+n]); err != nil {
					return
				}
				off += n
			}
			pw.Close()
		}()
		return pr, func() { pr.Close() }
	}
	return bytes.NewReader(in), none
}

// GuardLen is the number of canary bytes GuardedBuf keeps behind the buffer.
const GuardLen = 40

// GuardedBuf returns a buffer of length l that is a window of a larger array: the GuardLen bytes
// behind it (within its capacity) belong to someone else and hold a canary pattern.  A Read
// may use p[:len(p)] as scratch space and nothing else; GuardIntact tells whether the bytes
// behind the window are still untouched.
func GuardedBuf(l int) []byte {
	b := make([]byte, l+GuardLen)
	for i := l; i < len(b); i++ {
		b[i] = byte(0xC3 ^ i)
	}
	return b[:l]
}

func GuardIntact(p []byte) bool {
	b := p[:cap(p)]
	if len(b) < len(p)+GuardLen {
		return true
	}
	for i := len(p); i < len(p)+GuardLen; i++ {
		if b[i] != byte(0xC3^i) {
			return false
		}
	}
	return true
}
