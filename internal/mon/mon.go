// Package mon holds the boundary monitors: recording / fault-injecting sinks and
// sources handed to the library, and guards around public calls.
package mon

import (
	"errors"
	"fmt"
	"io"
	"runtime"
	"runtime/debug"
)

// ErrInjected is the error injected by faulting sinks and sources.
var ErrInjected = errors.New("mon: injected I/O failure")

// Sink is an io.Writer that records everything and can fail on purpose.
type Sink struct {
	Buf      []byte
	Calls    int   // Write calls seen
	CallLens []int // length of each call (when Log is set)
	Log      bool
	// fault plan
	FailAt   int    // index of the Write call that fails (-1 none)
	Forever  bool   // keep failing afterwards
	Partial  bool   // the failing call accepts half of its bytes first
	Full     bool   // the failing call accepts all of its bytes and still returns the error
	Hit      int    // number of times the fault fired
	Yield    func() // called on every Write (C14)
	ByteHits int
}

func NewSink() *Sink { return &Sink{FailAt: -1} }

func (s *Sink) Write(p []byte) (int, error) {
	idx := s.Calls
	s.Calls++
	if s.Log {
		s.CallLens = append(s.CallLens, len(p))
	}
	if s.Yield != nil {
		s.Yield()
	}
	if s.FailAt >= 0 && (idx == s.FailAt || (s.Forever && idx > s.FailAt)) {
		s.Hit++
		n := 0
		if s.Full {
			// legal for an io.Writer: (len(p), err), e.g. when a trailer or flush that belongs to
			// the call fails after the payload went out
			s.Buf = append(s.Buf, p...)
			return len(p), ErrInjected
		}
		if s.Partial && len(p) > 1 {
			n = len(p) / 2
			s.Buf = append(s.Buf, p[:n]...)
		}
		return n, ErrInjected
	}
	s.Buf = append(s.Buf, p...)
	return len(p), nil
}

// ByteSink additionally implements io.ByteWriter; every WriteByte counts as one
// call of the fault plan.
type ByteSink struct{ *Sink }

func (s ByteSink) WriteByte(c byte) error {
	_, err := s.Sink.Write([]byte{c})
	return err
}

// Source is an io.Reader over a byte slice with a fragmentation schedule and an
// optional fault at a byte offset.
type Source struct {
	Data          []byte
	Pos           int
	Frag          string            // "whole", "one", "short", "eofwith" (final data together with io.EOF)
	Next          func(max int) int // for "short": how many bytes to deliver
	FailAt        int               // byte offset at which reads fail (-1 none)
	Forever       bool
	WithData      bool  // deliver the error together with the last bytes before FailAt
	Err           error // the error value of the fault (nil: ErrInjected)
	Hit           int
	Calls         int
	CallsAfterEnd int
	Yield         func()
	ZeroNil       func(call int) bool // calls that return (0, nil) although the buffer is not empty
}

func (s *Source) fault() error {
	if s.Err != nil {
		return s.Err
	}
	return ErrInjected
}

func NewSource(data []byte) *Source { return &Source{Data: data, Frag: "whole", FailAt: -1} }

func (s *Source) Read(p []byte) (int, error) {
	s.Calls++
	if s.Yield != nil {
		s.Yield()
	}
	if len(p) == 0 {
		return 0, nil
	}
	if s.ZeroNil != nil && s.ZeroNil(s.Calls) {
		return 0, nil
	}
	limit := len(s.Data)
	if s.FailAt >= 0 && (s.Hit == 0 || s.Forever) {
		if s.Pos >= s.FailAt {
			s.Hit++
			return 0, s.fault()
		}
		limit = s.FailAt
	}
	if s.Pos >= len(s.Data) {
		s.CallsAfterEnd++
		return 0, io.EOF
	}
	n := len(p)
	switch s.Frag {
	case "one":
		n = 1
	case "short":
		if s.Next != nil {
			n = s.Next(len(p))
		}
		if n < 1 {
			n = 1
		}
		if n > len(p) {
			n = len(p)
		}
	}
	if n > limit-s.Pos {
		n = limit - s.Pos
	}
	copy(p, s.Data[s.Pos:s.Pos+n])
	s.Pos += n
	if s.WithData && s.FailAt >= 0 && s.Pos == s.FailAt && n > 0 && (s.Hit == 0 || s.Forever) {
		s.Hit++
		return n, s.fault()
	}
	if s.Frag == "eofwith" && s.Pos == len(s.Data) {
		return n, io.EOF
	}
	return n, nil
}

// ByteSource also implements io.ByteReader (the library takes a different path).
type ByteSource struct{ *Source }

func (s ByteSource) ReadByte() (byte, error) {
	var b [1]byte
	n, err := s.Source.Read(b[:])
	if n == 1 {
		return b[0], nil
	}
	if err == nil {
		err = io.ErrNoProgress
	}
	return 0, err
}

// Panic describes a recovered panic of a library call.
type Panic struct {
	Value string
	Stack string
}

func (p *Panic) Error() string { return "panic: " + p.Value }

// Guard runs f and converts a panic into a *Panic.
func Guard(f func()) (p *Panic) {
	defer func() {
		if v := recover(); v != nil {
			if re, ok := v.(runtime.Error); ok {
				v = re.Error()
			}
			p = &Panic{Value: fmt.Sprint(v), Stack: string(debug.Stack())}
		}
	}()
	f()
	return nil
}

// ReadAll drives r like io.ReadAll but through the given buffer-size schedule
// (nil = 4096 constant), records nothing else, and stops after maxOut bytes.
// It returns the bytes, the terminal error (io.EOF for a clean end) and a panic.
func ReadAll(r io.Reader, maxOut int) (out []byte, err error, pn *Panic) {
	buf := make([]byte, 32*1024)
	pn = Guard(func() {
		for {
			n, e := r.Read(buf)
			if n < 0 || n > len(buf) {
				err = fmt.Errorf("mon: Read returned n=%d for a buffer of %d", n, len(buf))
				return
			}
			out = append(out, buf[:n]...)
			if e != nil {
				err = e
				return
			}
			if maxOut > 0 && len(out) >= maxOut {
				err = errLimit
				return
			}
		}
	})
	return
}

var errLimit = errors.New("mon: output limit")

// IsLimit tells whether ReadAll stopped because of the output limit.
func IsLimit(err error) bool { return err == errLimit }
