package main

import (
	"bytes"
	"encoding/json"
	"fmt"
	"io"
	"os"
	"sync"

	"github.com/ulikunitz/xz"
	"github.com/ulikunitz/xz/lzma"

	"verif/internal/gen"
	"verif/internal/prng"
)

// Connected instances (vrace -mode=chain): distinct readers and writers that are not only
// used at the same time but depend on each other's progress - one is the source or sink of
// another (stacked for doubly compressed data), they are joined by io.Pipe in a pipeline,
// or the source / sink of one blocks until another one has finished.  Distinct instances
// share nothing, so each still produces the result it produces alone; an instance that
// holds anything process-wide while it calls its source or sink stops the others.
//
// Every wait in this mode is a channel, mutex or pipe operation and no other goroutine
// exists (no timers, no signal handlers), so that when the instances block each other the Go
// runtime itself ends the process with "all goroutines are asleep - deadlock!": that verdict
// is logical, not a time limit.  The runtime only does so in a build without -race, so the
// mode is run from a plain build first and from the -race build (for the race reports)
// afterwards.  Progress lines on stderr name the scenario.

type codec struct {
	name string
	w    func(io.Writer, int) (io.WriteCloser, error)
	r    func(io.Reader) (io.Reader, error)
}

var codecs = []codec{
	{"xz", func(s io.Writer, v int) (io.WriteCloser, error) {
		// (the variants with small blocks alternate between a check and none)
		return xz.WriterConfig{DictCap: []int{1 << 16, 4096}[v%2], BlockSize: int64([]int{0, 2500}[v/2%2]), NoCheckSum: v%4 == 3}.NewWriter(s)
	}, func(s io.Reader) (io.Reader, error) { return xz.ReaderConfig{DictCap: 4096}.NewReader(s) }},
	{"lzma2", func(s io.Writer, v int) (io.WriteCloser, error) {
		return lzma.Writer2Config{DictCap: []int{1 << 16, 4096}[v%2], Matcher: lzma.MatchAlgorithm(v / 2 % 2)}.NewWriter2(s)
	}, func(s io.Reader) (io.Reader, error) { return lzma.Reader2Config{DictCap: 1 << 16}.NewReader2(s) }},
	{"lzma", func(s io.Writer, v int) (io.WriteCloser, error) {
		return lzma.WriterConfig{DictCap: []int{1 << 16, 4096}[v%2], EOSMarker: v/2%2 == 1}.NewWriter(s)
	}, func(s io.Reader) (io.Reader, error) { return lzma.ReaderConfig{DictCap: 4096}.NewReader(s) }},
}

type chainResult struct {
	Scenarios int            `json:"scenarios"`
	Kinds     map[string]int `json:"kinds"`
	Mismatch  []string       `json:"mismatch"`
	Errors    []string       `json:"errors"`
	Bytes     int64          `json:"bytes_through_connected_instances"`
}

// writeAll writes data in pieces of 3000 bytes; in half of the variants an LZMA2 writer is
// flushed after each piece (xz writers of these variants use small blocks), so that the stream
// consists of many small chunks and a reader comes to a chunk boundary every few KiB.
func writeAll(w io.WriteCloser, v int, data []byte) error {
	f, _ := w.(interface{ Flush() error })
	for off := 0; off < len(data); off += 3000 {
		end := off + 3000
		if end > len(data) {
			end = len(data)
		}
		if _, err := w.Write(data[off:end]); err != nil {
			return err
		}
		if f != nil && v/2%2 == 1 {
			if err := f.Flush(); err != nil {
				return err
			}
		}
	}
	return w.Close()
}

func compress(cd codec, v int, data []byte) []byte {
	var b bytes.Buffer
	w, err := cd.w(&b, v)
	if err != nil {
		panic(err)
	}
	if err := writeAll(w, v, data); err != nil {
		panic(err)
	}
	return b.Bytes()
}

// gate delivers p[:at], then waits until open is closed (announcing the stall on reached
// first), then delivers the rest.
type gate struct {
	p       []byte
	at, off int
	reached chan struct{}
	open    chan struct{}
	waited  bool
}

func (g *gate) Read(q []byte) (int, error) {
	if g.off >= len(g.p) {
		return 0, io.EOF
	}
	if g.off == g.at && !g.waited {
		g.waited = true
		close(g.reached)
		<-g.open
	}
	end := len(g.p)
	if g.off < g.at {
		end = g.at
	}
	n := copy(q, g.p[g.off:end])
	g.off += n
	return n, nil
}

// gateSink accepts calls until the at-th, which waits until open is closed.
type gateSink struct {
	buf     bytes.Buffer
	calls   int
	at      int
	reached chan struct{}
	open    chan struct{}
}

func (g *gateSink) Write(p []byte) (int, error) {
	if g.calls == g.at {
		close(g.reached)
		<-g.open
	}
	g.calls++
	return g.buf.Write(p)
}

func chainMain(seed uint64, rounds int) {
	res := chainResult{Kinds: map[string]int{}}
	r := prng.New(seed, 141)
	note := func(s string) { fmt.Fprintln(os.Stderr, "scenario:", s) }
	bad := func(f string, a ...any) { res.Mismatch = append(res.Mismatch, fmt.Sprintf(f, a...)) }
	mkdata := func(n int) []byte {
		// mostly noise: the writers store it in uncompressed chunks, which the readers copy
		// from their source straight into the dictionary (small pure noise is one such chunk;
		// a compressible head and tail around it make the chunk kinds alternate)
		switch r.Intn(4) {
		case 0:
			return gen.Data(r, "random", n)
		case 1:
			d := gen.Data(r, "text", n/3)
			d = append(d, gen.Data(r, "random", 70000+n)...)
			return append(d, gen.Data(r, "lowent", n/3)...)
		case 2:
			return append(gen.Data(r, "random", n), gen.Data(r, "text", n/2)...)
		}
		return append(gen.Data(r, "text", n/2), gen.Data(r, "random", n)...)
	}
	for round := 0; round < rounds; round++ {
		// 1. stacked instances in one goroutine: doubly compressed data
		for ci, outer := range codecs {
			inner := codecs[(ci+round)%len(codecs)]
			id := fmt.Sprintf("stacked %s(%s) round %d", outer.name, inner.name, round)
			note(id)
			data := mkdata(r.Pick(3000, 10000, 30000))
			v := r.Intn(4)
			// (the outer writer of the byte comparison is never flushed: variant v&1)
			alone := compress(outer, v&1, compress(inner, v+1, data))
			var sink bytes.Buffer
			wo, err1 := outer.w(&sink, v&1)
			wi, err2 := inner.w(wo, v+1)
			if err1 != nil || err2 != nil {
				res.Errors = append(res.Errors, fmt.Sprintf("%s: %v %v", id, err1, err2))
				continue
			}
			writeAll(wi, v+1, data)
			wo.Close()
			if !bytes.Equal(sink.Bytes(), alone) {
				bad("%s: a writer whose sink is another writer emits %d bytes, one after the other %d bytes", id, sink.Len(), len(alone))
			}
			// for reading, an outer stream of many small chunks
			alone = compress(outer, v|2, compress(inner, v+1, data))
			ro, err1 := outer.r(bytes.NewReader(alone))
			var got []byte
			if err1 == nil {
				var ri io.Reader
				if ri, err2 = inner.r(ro); err2 == nil {
					got, err2 = io.ReadAll(ri)
				}
			}
			if err1 != nil || err2 != nil || !bytes.Equal(got, data) {
				bad("%s: a reader whose source is another reader: %v %v, %d of %d bytes", id, err1, err2, len(got), len(data))
			}
			res.Scenarios++
			res.Kinds["stacked"]++
			res.Bytes += int64(len(data))
		}
		// 1b. a writer and a reader joined directly by io.Pipe (no buffering in between: every
		// Write of the writer, zero-length ones included, is one Read result of the reader)
		for ci, cd := range codecs {
			for v := 0; v < 4; v++ {
				id := fmt.Sprintf("direct pipe %s variant %d round %d", cd.name, v, round)
				note(id)
				data := mkdata(r.Pick(3000, 12000, 30000))
				pr, pw := io.Pipe()
				var werr error
				done := make(chan struct{})
				go func() {
					defer close(done)
					w, err := cd.w(pw, v)
					if err != nil {
						werr = err
						pw.CloseWithError(err)
						return
					}
					werr = writeAll(w, v, data)
					pw.Close()
				}()
				var got []byte
				rd, rerr := cd.r(pr)
				if rerr == nil {
					got, rerr = io.ReadAll(rd)
				}
				io.Copy(io.Discard, pr)
				<-done
				if werr != nil || rerr != nil || !bytes.Equal(got, data) {
					bad("%s: writer %v, reader %v, %d of %d bytes", id, werr, rerr, len(got), len(data))
				}
				res.Scenarios++
				res.Kinds["direct-pipe"]++
				res.Bytes += int64(len(data))
				_ = ci
			}
		}
		// 2. pipeline: reader -> writer -> pipe -> reader -> writer -> pipe -> reader, each stage
		// in its own goroutine (recompression between formats)
		{
			a, b, cc := codecs[round%3], codecs[(round+1)%3], codecs[(round+2)%3]
			id := fmt.Sprintf("pipeline %s>%s>%s round %d", a.name, b.name, cc.name, round)
			note(id)
			data := mkdata(r.Pick(10000, 40000))
			v := r.Intn(4)
			first := compress(a, v, data)
			wantMid := compress(b, v&1, data) // io.Copy below never flushes
			p1r, p1w := io.Pipe()
			p2r, p2w := io.Pipe()
			var wg sync.WaitGroup
			var e1, e2 error
			wg.Add(2)
			go func() { // stage 1: decode a, encode b
				defer wg.Done()
				defer p1w.Close()
				rd, err := a.r(bytes.NewReader(first))
				if err != nil {
					e1 = err
					return
				}
				w, _ := b.w(p1w, v&1)
				if _, err := io.Copy(w, rd); err != nil {
					e1 = err
				}
				w.Close()
			}()
			var mid bytes.Buffer
			go func() { // stage 2: decode b, encode c
				defer wg.Done()
				defer p2w.Close()
				rd, err := b.r(io.TeeReader(p1r, &mid))
				if err != nil {
					e2 = err
					io.Copy(io.Discard, p1r)
					return
				}
				w, _ := cc.w(p2w, v)
				if _, err := io.Copy(w, rd); err != nil {
					e2 = err
					io.Copy(io.Discard, p1r)
				}
				w.Close()
			}()
			var got []byte
			rd, e3 := cc.r(p2r)
			if e3 == nil {
				got, e3 = io.ReadAll(rd)
			}
			io.Copy(io.Discard, p2r)
			wg.Wait()
			if e1 != nil || e2 != nil || e3 != nil || !bytes.Equal(got, data) {
				bad("%s: %v %v %v, %d of %d bytes", id, e1, e2, e3, len(got), len(data))
			} else if !bytes.Equal(mid.Bytes(), wantMid) {
				bad("%s: the middle stream differs from the one written alone (%d vs %d bytes)", id, mid.Len(), len(wantMid))
			}
			res.Scenarios++
			res.Kinds["pipeline"]++
			res.Bytes += 3 * int64(len(data))
		}
		// 3. hand-over: instance A stalls inside a call of its source (or sink) until instance B,
		// which has everything in memory, has finished
		for ci, ca := range codecs {
			cb := codecs[(ci+1+round)%len(codecs)]
			data := mkdata(r.Pick(8000, 30000))
			dataB := mkdata(r.Pick(5000, 20000))
			v := 2 + r.Intn(2) // many small chunks / blocks
			sa, sb := compress(ca, v, data), compress(cb, v+1, dataB)
			for _, at := range []int{r.Intn(30), len(sa)/4 + r.Intn(len(sa)/2), len(sa) - 1 - r.Intn(20)} {
				id := fmt.Sprintf("hand-over reader %s stalls at %d/%d while reader %s runs, round %d", ca.name, at, len(sa), cb.name, round)
				note(id)
				g := &gate{p: sa, at: at, reached: make(chan struct{}), open: make(chan struct{})}
				var gotA []byte
				var errA error
				done := make(chan struct{})
				go func() {
					defer close(done)
					rd, err := ca.r(g)
					if err != nil {
						errA = err
						return
					}
					gotA, errA = io.ReadAll(rd)
				}()
				<-g.reached
				rb, errB := cb.r(bytes.NewReader(sb))
				var gotB []byte
				if errB == nil {
					gotB, errB = io.ReadAll(rb)
				}
				// a writer as well, while A is still stalled
				wout := compress(cb, v+1, dataB)
				close(g.open)
				<-done
				if errA != nil || errB != nil || !bytes.Equal(gotA, data) || !bytes.Equal(gotB, dataB) || !bytes.Equal(wout, sb) {
					bad("%s: %v %v (%d/%d and %d/%d bytes, writer output equal %v)", id, errA, errB, len(gotA), len(data), len(gotB), len(dataB), bytes.Equal(wout, sb))
				}
				res.Scenarios++
				res.Kinds["hand-over-reader"]++
				res.Bytes += int64(len(data) + len(dataB))
			}
			for _, at := range []int{r.Intn(2), 2 + r.Intn(4)} {
				id := fmt.Sprintf("hand-over writer %s stalls in sink call %d while %s instances run, round %d", ca.name, at, cb.name, round)
				note(id)
				g := &gateSink{at: at, reached: make(chan struct{}), open: make(chan struct{})}
				done := make(chan struct{})
				finished := false
				go func() {
					defer close(done)
					w, err := ca.w(g, v)
					if err != nil {
						return
					}
					finished = writeAll(w, v, data) == nil
				}()
				select {
				case <-g.reached:
				case <-done: // fewer sink calls than at
				}
				wout := compress(cb, v+1, dataB)
				rb, errB := cb.r(bytes.NewReader(sb))
				var gotB []byte
				if errB == nil {
					gotB, errB = io.ReadAll(rb)
				}
				select {
				case <-g.open:
				default:
					close(g.open)
				}
				<-done
				if !finished || errB != nil || !bytes.Equal(g.buf.Bytes(), sa) || !bytes.Equal(wout, sb) || !bytes.Equal(gotB, dataB) {
					bad("%s: finished %v, %v, stalled writer's output equal %v, other writer's output equal %v, reader %d/%d bytes", id, finished, errB, bytes.Equal(g.buf.Bytes(), sa), bytes.Equal(wout, sb), len(gotB), len(dataB))
				}
				res.Scenarios++
				res.Kinds["hand-over-writer"]++
				res.Bytes += int64(len(data) + len(dataB))
			}
		}
	}
	json.NewEncoder(os.Stdout).Encode(res)
}
