// vrace is the C14 workload: N goroutines, each driving its own writer or reader
// of the library, through sinks/sources that yield at seed-chosen calls.  It is
// built with -race.  Output: one JSON object on stdout.
//
//	vrace -seed S -rounds R -goroutines N
package main

import (
	"bytes"
	"crypto/sha256"
	"encoding/hex"
	"encoding/json"
	"flag"
	"fmt"
	"io"
	"os"
	"runtime"
	"sync"
	"sync/atomic"

	"github.com/ulikunitz/xz"
	"github.com/ulikunitz/xz/lzma"

	"verif/internal/gen"
	"verif/internal/mon"
	"verif/internal/prng"
	"verif/internal/ref"
)

type job struct {
	Kind       string // xzW lzmaW lzma2W xzR lzmaR lzma2R
	LC, LP, PB int
	Dict       int
	Matcher    int
	Block      int64
	Check      byte
	Family     string
	N          int
	Seed       uint64
	Stream     []byte `json:"-"` // reader jobs: input stream
	Content    []byte `json:"-"`
	// Disturb marks an instance with an abnormal history whose own result is not judged: it runs
	// next to the judged instances and must not affect them.  1: the sink fails once at the last
	// call of Close (Close is retried); 2: the sink fails once at a seed-chosen call (the failed
	// call is retried); 3: the sink fails for good, the writer is abandoned without Close;
	// 4 (readers): the source fails half-way and the reader is abandoned; 5 (readers): a byte of
	// the stream is damaged.
	Disturb int
}

func (j job) key() string {
	return fmt.Sprintf("%s|%d%d%d|d%d|m%d|b%d|c%d|%s|%d|%x", j.Kind, j.LC, j.LP, j.PB, j.Dict, j.Matcher, j.Block, j.Check, j.Family, j.N, j.Seed)
}

var lclp = [][2]int{{0, 0}, {3, 0}, {4, 0}, {0, 4}, {2, 2}, {1, 3}, {3, 1}, {0, 2}}

func mkWriterJob(r *prng.R) job {
	pp := lclp[r.Intn(len(lclp))]
	j := job{Kind: []string{"xzW", "xzW", "lzmaW", "lzma2W"}[r.Intn(4)], LC: pp[0], LP: pp[1], PB: r.Intn(5), Dict: r.Pick(4096, 8192, 65536),
		Matcher: r.Intn(2), Block: int64(r.Pick(0, 0, 3000)), Check: byte(r.Pick(1, 4, 4, 10)),
		Family: []string{"text", "lowent", "random", "altseg", "nearrep"}[r.Intn(5)], N: r.Pick(500, 5000, 20000, 60000), Seed: r.U64()}
	if j.Matcher == 1 && j.N > 12000 && j.Family != "text" && j.Family != "random" {
		j.N = 12000
	}
	if r.Chance(1, 8) {
		// enough incompressible data for raw LZMA2 chunks followed by compressed ones: the
		// writer then rolls its coder state back to the snapshot taken at the chunk start
		j.Family = []string{"sandwich2", "sandwich", "altseg"}[r.Intn(3)]
		j.N = 280000
		j.Matcher = 0
		if j.Block > 0 {
			j.Block = 100000
		}
	}
	return j
}

var ticket int64
var order []int32

// useTickets: record which goroutine ran at every boundary call (interleaving signature).
// The atomic counter this needs also orders the goroutines for the race detector (an atomic
// add is a release/acquire pair), which can hide a race between accesses on either side of
// two boundary calls; some processes therefore run without it.
var useTickets = true

// boundary is called from every sink/source call: records who ran and yields.
func boundary(g int32, r *prng.R) {
	if !useTickets {
		if r.Chance(1, 3) {
			runtime.Gosched()
		}
		return
	}
	t := atomic.AddInt64(&ticket, 1) - 1
	if int(t) < len(order) {
		atomic.StoreInt32(&order[t], g+1)
	}
	if r.Chance(1, 3) {
		runtime.Gosched()
	}
}

// run executes one job; g < 0 means the sequential reference run (no yields).
// prebuilt is a writer that the main goroutine created before the round started.
type prebuilt struct {
	w    io.WriteCloser
	sink *mon.Sink
}

func run(j job, g int32, yseed uint64) (out []byte, err error) { return runPre(j, g, yseed, nil) }

func runPre(j job, g int32, yseed uint64, pre *prebuilt) (out []byte, err error) {
	yr := prng.New(yseed, uint64(g)+7)
	yield := func() {}
	if g >= 0 {
		yield = func() { boundary(g, yr) }
	}
	defer func() {
		if p := recover(); p != nil {
			err = fmt.Errorf("panic: %v", p)
		}
	}()
	// the Properties value is shared (one pointer per lc/lp/pb for the whole process, as a
	// program with a package-level configuration would have it): the library must treat what
	// the configuration points to as read-only
	props := sharedProps(j.LC, j.LP, j.PB)
	switch j.Kind {
	case "xzW", "lzmaW", "lzma2W":
		data := gen.Data(prng.New(j.Seed, 1), j.Family, j.N)
		sink := mon.NewSink()
		sink.Yield = yield
		if j.Disturb > 0 {
			return nil, disturbWriter(j, props, data, sink)
		}
		var w io.WriteCloser
		kind := j.Kind
		if pre != nil {
			w, sink, kind = pre.w, pre.sink, "prebuilt"
			sink.Yield = yield
		}
		switch kind {
		case "prebuilt":
		case "xzW":
			w, err = xz.WriterConfig{Properties: props, DictCap: j.Dict, BlockSize: j.Block, CheckSum: j.Check, Matcher: lzma.MatchAlgorithm(j.Matcher)}.NewWriter(sink)
		case "lzmaW":
			if j.LC+j.LP > 4 {
				props = &lzma.Properties{LC: 3, LP: 0, PB: 2}
			}
			w, err = lzma.WriterConfig{Properties: props, DictCap: j.Dict, Matcher: lzma.MatchAlgorithm(j.Matcher)}.NewWriter(sink)
		default:
			w, err = lzma.Writer2Config{Properties: props, DictCap: j.Dict, Matcher: lzma.MatchAlgorithm(j.Matcher)}.NewWriter2(sink)
		}
		if err != nil {
			return nil, err
		}
		for pos := 0; pos < len(data); {
			l := 1 + (pos*7+13)%4096
			if pos+l > len(data) {
				l = len(data) - pos
			}
			if _, err = callerWrite(w, data[pos:pos+l], j.Seed+uint64(pos)); err != nil {
				return nil, err
			}
			pos += l
		}
		if err = w.Close(); err != nil {
			return nil, err
		}
		out = append([]byte(nil), sink.Buf...)
		// a redundant Close (defer w.Close() after an explicit one is a common idiom) must
		// not touch anything another instance owns; its result does not matter here
		if j.Seed%3 == 0 {
			w.Close()
		}
		return out, nil
	default:
		if j.Disturb == 5 && len(j.Stream) > 0 {
			st := append([]byte(nil), j.Stream...)
			st[len(st)/2+int(j.Seed%7)%len(st)/2] ^= 0x10
			j.Stream = st
		}
		src := mon.NewSource(j.Stream)
		if j.Disturb == 4 {
			src.FailAt = len(j.Stream) / 2
		}
		src.Frag = "short"
		k := 0
		src.Next = func(max int) int { k++; return 1 + (k*37)%977 }
		src.Yield = yield
		var r io.Reader
		switch j.Kind {
		case "xzR":
			r, err = xz.ReaderConfig{DictCap: 4096}.NewReader(src)
		case "lzmaR":
			r, err = lzma.ReaderConfig{DictCap: 4096}.NewReader(src)
		default:
			r, err = lzma.Reader2Config{DictCap: j.Dict}.NewReader2(src)
		}
		if err != nil {
			return nil, err
		}
		mode := uint64(0) // the sequential reference run: io.ReadAll
		if g >= 0 {
			mode = 1 + j.Seed%2
		}
		switch mode {
		case 1:
			// the caller's buffer is a window of a larger array of its own with canaries behind it
			lr := prng.New(j.Seed, 77)
			for {
				p := mon.GuardedBuf(lr.Pick(1, 2, 3, 5, 7, 8, 9, 16, 31, 33, 40, 97, 1+lr.Intn(40)))
				n, rerr := r.Read(p)
				out = append(out, p[:n]...)
				if !mon.GuardIntact(p) {
					return out, fmt.Errorf("Read with a buffer of %d bytes wrote behind the buffer", len(p))
				}
				if rerr == io.EOF {
					return out, nil
				}
				if rerr != nil {
					return out, rerr
				}
			}
		case 2:
			// the buffers of all goroutines are neighbouring 64-byte windows of one arena: what a
			// reader writes behind its window lands in the window of the next goroutine
			if g >= 0 && int(g) < arenaSlots-1 {
				lr := prng.New(j.Seed, 78)
				for {
					// even goroutines use the front of their slot, odd ones the back: what an odd
					// one writes behind its window is the front of the next slot
					l := lr.Pick(64, 33, 17, 9, 5, 1+lr.Intn(64))
					win := arena[int(g)*arenaSlot : int(g)*arenaSlot+l]
					if g%2 == 1 {
						win = arena[int(g+1)*arenaSlot-l : int(g+1)*arenaSlot]
					}
					n, rerr := r.Read(win)
					out = append(out, win[:n]...)
					if rerr == io.EOF {
						return out, nil
					}
					if rerr != nil {
						return out, rerr
					}
				}
			}
		}
		return io.ReadAll(r)
	}
}

const arenaSlot, arenaSlots = 64, 80

var arena = make([]byte, arenaSlot*arenaSlots)

var reuseProps lzma.Properties // retuned by main between NewWriter calls (see main)

var propsTable [9][5][5]*lzma.Properties

func init() {
	for lc := range propsTable {
		for lp := range propsTable[lc] {
			for pb := range propsTable[lc][lp] {
				propsTable[lc][lp][pb] = &lzma.Properties{LC: lc, LP: lp, PB: pb}
			}
		}
	}
}

func sharedProps(lc, lp, pb int) *lzma.Properties { return propsTable[lc][lp][pb] }

func newWriter(j job, props *lzma.Properties, sink io.Writer) (w io.WriteCloser, err error) {
	switch j.Kind {
	case "xzW":
		return xz.WriterConfig{Properties: props, DictCap: j.Dict, BlockSize: j.Block, CheckSum: j.Check, Matcher: lzma.MatchAlgorithm(j.Matcher)}.NewWriter(sink)
	case "lzmaW":
		if j.LC+j.LP > 4 {
			props = &lzma.Properties{LC: 3, LP: 0, PB: 2}
		}
		return lzma.WriterConfig{Properties: props, DictCap: j.Dict, Matcher: lzma.MatchAlgorithm(j.Matcher)}.NewWriter(sink)
	}
	return lzma.Writer2Config{Properties: props, DictCap: j.Dict, Matcher: lzma.MatchAlgorithm(j.Matcher)}.NewWriter2(sink)
}

// disturbWriter drives a writer through a history with sink failures: a dry run counts the
// sink calls, then the same writes are repeated on a fresh writer whose sink fails as
// j.Disturb says; a failed Write or Close is retried (legal use: the caller saw a transient
// error) up to three times.  Errors and panics of this instance are its own business (C09).
func disturbWriter(j job, props *lzma.Properties, data []byte, sink *mon.Sink) error {
	dry := mon.NewSink()
	dry.Yield = sink.Yield
	w, err := newWriter(j, props, dry)
	if err != nil {
		return nil
	}
	w.Write(data)
	beforeClose := dry.Calls
	w.Close()
	total := dry.Calls
	switch j.Disturb {
	case 1:
		sink.FailAt = total - 1
	case 2:
		sink.FailAt = int(j.Seed % uint64(total))
		if j.Seed&1 == 0 && total > beforeClose {
			sink.FailAt = beforeClose + int(j.Seed>>8)%(total-beforeClose)
		}
	default:
		sink.FailAt = int(j.Seed % uint64(total))
		sink.Forever = true
	}
	w, err = newWriter(j, props, sink)
	if err != nil {
		return nil
	}
	for try := 0; try < 3; try++ {
		if _, err = w.Write(data); err == nil {
			break
		}
		data = nil // a retried Write adds nothing new; Close decides
	}
	if j.Disturb == 3 {
		return nil // abandoned
	}
	for try := 0; try < 3; try++ {
		if err = w.Close(); err == nil {
			break
		}
	}
	return nil
}

type result struct {
	GOMAXPROCS    int               `json:"gomaxprocs"`
	Rounds        int               `json:"rounds"`
	InstanceRuns  int               `json:"instance_runs"`
	Digests       map[string]string `json:"digests"` // job key -> sha256 of its output (concurrent runs)
	Mismatch      []string          `json:"mismatch"`
	Errors        []string          `json:"errors"`
	Signatures    []string          `json:"interleaving_signatures"`
	BoundaryCalls int64             `json:"boundary_calls"`
	Switches      int64             `json:"goroutine_switches_observed"`
	Kinds         map[string]int    `json:"kinds"`
	Configs       int               `json:"distinct_configs"`
}

func digest(b []byte) string { h := sha256.Sum256(b); return hex.EncodeToString(h[:8]) }

func main() {
	seed := flag.Uint64("seed", 1, "")
	rounds := flag.Int("rounds", 4, "")
	tk := flag.Bool("tickets", true, "")
	mode := flag.String("mode", "rounds", "rounds | chain (connected instances, see chain.go)")
	flag.Parse()
	if *mode == "chain" {
		chainMain(*seed, *rounds)
		return
	}
	useTickets = *tk
	res := result{GOMAXPROCS: runtime.GOMAXPROCS(0), Rounds: *rounds, Digests: map[string]string{}, Kinds: map[string]int{}}
	r := prng.New(*seed, 14)
	var mu sync.Mutex
	type done struct {
		j   job
		out []byte
	}
	var all []done
	var pool []done // finished writer jobs feeding reader jobs
	cfgs := map[string]bool{}
	for round := 0; round < *rounds; round++ {
		n := []int{16, 2, 4, 32}[round%4]
		roundDict := []int{4096, 65536, 8192}[(round/2)%3]
		jobs := make([]job, n)
		for i := range jobs {
			if round > 0 && len(pool) > 0 && r.Chance(1, 2) {
				p := pool[r.Intn(len(pool))]
				kind := map[string]string{"xzW": "xzR", "lzmaW": "lzmaR", "lzma2W": "lzma2R"}[p.j.Kind]
				jobs[i] = job{Kind: kind, Dict: p.j.Dict, Stream: p.out, Seed: p.j.Seed, N: len(p.out), Family: "from:" + p.j.Family, LC: p.j.LC, LP: p.j.LP, PB: p.j.PB, Matcher: p.j.Matcher, Block: p.j.Block, Check: p.j.Check}
			} else {
				jobs[i] = mkWriterJob(r)
				// most instances of a round share one dictionary size: package-level state
				// keyed by configuration (pools, caches) only shows with equal configurations
				if r.Chance(3, 4) {
					jobs[i].Dict = roundDict
				}
			}
			cfgs[fmt.Sprintf("%s|%d%d%d|%d|%d", jobs[i].Kind, jobs[i].LC, jobs[i].LP, jobs[i].PB, jobs[i].Dict, jobs[i].Matcher)] = true
		}
		// disturbers: instances with failing sinks / sources, retried and abandoned calls
		// in the rounds whose writers are created beforehand from one retuned Properties variable:
		// two more writers with compressible data (the output of noise does not depend on the
		// properties), drawn from a generator of their own
		if round%2 == 1 {
			xr := prng.New(*seed, 142, uint64(round))
			for k := 0; k < 2; k++ {
				pp := lclp[xr.Intn(len(lclp))]
				jobs = append(jobs, job{Kind: []string{"lzma2W", "lzmaW"}[k], LC: pp[0], LP: pp[1], PB: xr.Intn(5), Dict: roundDict, Matcher: k, Check: 4,
					Family: []string{"text", "lowent"}[k], N: 5000 + 1000*k, Seed: xr.U64()})
			}
		}
		// readers of foreign streams: chunk kinds this library's writer never emits (state resets
		// without new properties after uncompressed chunks, property changes in the middle), from
		// the specification-driven generator, several instances with the same properties at once
		for k := 0; k < 2+round%3; k++ {
			fp := ref.Props{LC: 3, LP: 0, PB: 2}
			if k%3 == 2 {
				fp = ref.Props{LC: 0, LP: 2, PB: 1}
			}
			fs := r.U64()
			l2, content, _ := ref.GenLZMA2(prng.New(fs, 5), ref.LZMA2Plan{DictSize: 4096, NChunks: 8, OpsPer: 300, FixedProp: &fp})
			if len(content) == 0 {
				continue
			}
			if k%2 == 0 {
				jobs = append(jobs, job{Kind: "lzma2R", Dict: 4096, Stream: l2, Seed: fs, N: len(l2), Family: "from:generator", LC: fp.LC, LP: fp.LP, PB: fp.PB})
			} else {
				xb := ref.BuildXZ(ref.CheckCRC32, []ref.BlockSpec{{LZMA2: l2, Content: content, DictCode: 0}})
				jobs = append(jobs, job{Kind: "xzR", Dict: 4096, Stream: xb, Seed: fs, N: len(xb), Family: "from:generator", LC: fp.LC, LP: fp.LP, PB: fp.PB})
			}
			res.Kinds["foreign_stream_readers"]++
		}
		n = len(jobs)
		judged := n
		for k := 0; k < 4 && n >= 4; k++ {
			d := mkWriterJob(r)
			d.Kind = []string{"lzma2W", "xzW", "lzmaW", "lzma2W"}[k]
			d.Disturb = []int{1, 2, 3, 2}[(k+round)%4]
			if k == 0 {
				d.Disturb = 1
			}
			d.Matcher = (k + round) % 2
			d.Dict = roundDict
			if d.N > 5000 {
				d.N = 5000
			}
			jobs = append(jobs, d)
			if len(pool) > 0 {
				p := pool[r.Intn(len(pool))]
				kind := map[string]string{"xzW": "xzR", "lzmaW": "lzmaR", "lzma2W": "lzma2R"}[p.j.Kind]
				jobs = append(jobs, job{Kind: kind, Dict: p.j.Dict, Stream: p.out, Seed: p.j.Seed + uint64(k), N: len(p.out), Family: "from:" + p.j.Family, Disturb: 4 + k%2})
			}
		}
		n = len(jobs)
		// pre-phase: a batch of small instances with failing sinks (every dictionary size of the
		// judged jobs, both matchers, all writer kinds; failed calls retried) runs to completion
		// right before the round starts, so whatever such histories leave behind in
		// package-level state is still there when the judged instances are created
		var pre sync.WaitGroup
		for k := 0; k < 18; k++ {
			d := job{Kind: []string{"lzma2W", "xzW", "lzmaW"}[k%3], LC: 3, PB: 2, Dict: []int{roundDict, roundDict, 4096, 8192, 65536, roundDict}[(k/3)%6], Matcher: (k / 3) % 2,
				Check: 4, Family: "text", N: 600 + 100*k, Seed: r.U64(), Disturb: 1 + (k/3+round)%2}
			if k%3 == 0 {
				d.Disturb = 1
			}
			res.Kinds[fmt.Sprintf("%s-predisturber%d", d.Kind, d.Disturb)]++
			pre.Add(1)
			go func() { defer pre.Done(); run(d, 63, *seed) }()
		}
		pre.Wait()
		atomic.StoreInt64(&ticket, 0)
		order = make([]int32, 1<<20)
		outs := make([][]byte, n)
		errs := make([]error, n)
		var wg sync.WaitGroup
		start := make(chan struct{})
		for i := range jobs {
			wg.Add(1)
			// in every second round the writers are created here, one after the other, from a
			// configuration whose Properties variable is reused and retuned for each of them
			// (open all outputs, then write): a writer must have taken what it needs from the
			// configuration when NewWriter returned
			var pre *prebuilt
			if j := jobs[i]; round%2 == 1 && j.Disturb == 0 && (j.Kind == "xzW" || j.Kind == "lzmaW" || j.Kind == "lzma2W") {
				reuseProps = lzma.Properties{LC: j.LC, LP: j.LP, PB: j.PB}
				if j.Kind == "lzmaW" && j.LC+j.LP > 4 {
					reuseProps = lzma.Properties{LC: 3, LP: 0, PB: 2}
				}
				pp := &reuseProps
				if j.Kind == "xzW" {
					// xz.Writer keeps the pointer and reads it again whenever it starts a block:
					// with a retuned variable its later blocks legitimately use the new values
					// (each block states its own properties, the stream stays valid).  Byte-equal
					// output can only be demanded when the value it points to stays unchanged.
					own := reuseProps
					pp = &own
				}
				sk := mon.NewSink()
				if w, err := newWriter(j, pp, sk); err == nil {
					pre = &prebuilt{w, sk}
					res.Kinds["writers_created_before_the_round"]++
					res.Kinds["created_before_the_round:"+j.Kind]++
				}
			}
			if i == len(jobs)-1 && round%2 == 1 {
				// the variable is retuned once more after the last writer was created
				reuseProps = lzma.Properties{LC: 1, LP: 1, PB: 1}
			}
			go func(i int) {
				defer wg.Done()
				<-start
				outs[i], errs[i] = runPre(jobs[i], int32(i), *seed+uint64(round), pre)
			}(i)
		}
		close(start)
		wg.Wait()
		// interleaving signature of this round
		h := sha256.New()
		var prev int32
		nt := atomic.LoadInt64(&ticket)
		for t := int64(0); t < nt && int(t) < len(order); t++ {
			g := order[t]
			h.Write([]byte{byte(g)})
			if t > 0 && g != prev {
				res.Switches++
			}
			prev = g
		}
		res.BoundaryCalls += nt
		res.Signatures = append(res.Signatures, hex.EncodeToString(h.Sum(nil)[:8]))
		mu.Lock()
		for i, j := range jobs {
			res.InstanceRuns++
			if i >= judged || j.Disturb > 0 {
				res.Kinds[fmt.Sprintf("%s-disturber%d", j.Kind, j.Disturb)]++
				continue
			}
			res.Kinds[j.Kind]++
			if errs[i] != nil {
				res.Errors = append(res.Errors, fmt.Sprintf("round %d goroutine %d %s: %v", round, i, j.key(), errs[i]))
				continue
			}
			all = append(all, done{j, outs[i]})
			if j.Kind == "xzW" || j.Kind == "lzmaW" || j.Kind == "lzma2W" {
				pool = append(pool, done{j, outs[i]})
			}
		}
		mu.Unlock()
	}
	// sequential reference runs, after the concurrent phase on purpose (first use
	// of every package-level facility happened concurrently)
	for _, d := range all {
		ref, err := run(d.j, -1, 0)
		k := d.j.key()
		if err != nil {
			res.Errors = append(res.Errors, fmt.Sprintf("sequential %s: %v", k, err))
			continue
		}
		if !bytes.Equal(ref, d.out) {
			res.Mismatch = append(res.Mismatch, fmt.Sprintf("%s: concurrent run produced %d bytes (%s), alone %d bytes (%s)", k, len(d.out), digest(d.out), len(ref), digest(ref)))
		}
		if prev, ok := res.Digests[k]; ok && prev != digest(d.out) {
			res.Mismatch = append(res.Mismatch, fmt.Sprintf("%s: two concurrent runs of the same job differ (%s vs %s)", k, prev, digest(d.out)))
		}
		res.Digests[k] = digest(d.out)
		// reader jobs must reproduce the writer's input
		if d.j.Kind[len(d.j.Kind)-1] == 'R' {
			want := gen.Data(prng.New(d.j.Seed, 1), d.j.Family[5:], 0)
			_ = want
		}
	}
	for lc := range propsTable {
		for lp := range propsTable[lc] {
			for pb, p := range propsTable[lc][lp] {
				if p.LC != lc || p.LP != lp || p.PB != pb {
					res.Mismatch = append(res.Mismatch, fmt.Sprintf("the shared Properties value for lc%d lp%d pb%d was modified by the library: now %+v", lc, lp, pb, *p))
				}
			}
		}
	}
	res.Configs = len(cfgs)
	json.NewEncoder(os.Stdout).Encode(res)
}

// callerWrite: see cmd/vcheck/lib.go (the caller's buffer is overwritten after Write returned).
func callerWrite(w io.Writer, p []byte, salt uint64) (int, error) {
	if salt%2 == 0 || len(p) == 0 {
		return w.Write(p)
	}
	buf := make([]byte, len(p))
	copy(buf, p)
	n, err := w.Write(buf)
	for i := range buf {
		buf[i] = 0xA5
	}
	return n, err
}
