package main

import (
	"bytes"
	"fmt"
	"io"
	"os"
	"path/filepath"
	"sort"

	"github.com/ulikunitz/xz"
	"github.com/ulikunitz/xz/lzma"

	"verif/internal/ev"
	"verif/internal/gen"
	"verif/internal/mon"
	"verif/internal/prng"
	"verif/internal/ref"
)

func init() { register("C05", "fault_enumeration", checkC05) }

// tstream is a complete valid stream whose prefixes are examined.
type tstream struct {
	ID      string
	Format  string // "xz", "xz-single", "lzma2", "lzma", "xz-multi"
	B       []byte
	Content []byte
	Dict    int
	Feat    string
	// multi-stream only: legal cut positions -> content length decoded there
	Legal map[int]int
	// structural boundaries (for windowed enumeration of long streams)
	Bounds []int
}

func openRead(format string, b []byte, dict int) (out []byte, ctorErr, readErr error, pn *mon.Panic) {
	return openReadSched(format, b, dict, nil)
}

// openReadSched is openRead with a schedule of Read buffer lengths: nil reads like io.ReadAll;
// otherwise the lengths are used in turn (the last one repeats).  What a reader says about a
// damaged or truncated stream must not depend on how the caller sizes its buffers.
func openReadSched(format string, b []byte, dict int, sched []int) (out []byte, ctorErr, readErr error, pn *mon.Panic) {
	out, ctorErr, readErr, _, pn = openReadSchedAfter(format, b, dict, sched)
	return
}

// openReadSchedAfter additionally keeps calling Read (up to four times) after the first error
// and reports whether one of those calls announced a clean end of stream: an error must not turn
// into a regular end for a caller that reads on.  (More data after an error is not judged.)
func openReadSchedAfter(format string, b []byte, dict int, sched []int, kind ...string) (out []byte, ctorErr, readErr error, after string, pn *mon.Panic) {
	var r io.Reader
	// what the reader is connected to: a *bytes.Reader, or one of mon.SourceKinds
	var src io.Reader = bytes.NewReader(b)
	if len(kind) > 0 && kind[0] != "" {
		var release func()
		src, release = mon.OpenSource(kind[0], b, uint64(len(b))*2654435761+uint64(dict))
		defer release()
	}
	defer func() {
		if readErr == nil || pn != nil || r == nil {
			return
		}
		p2 := mon.Guard(func() {
			for k := 0; k < 4; k++ {
				p := make([]byte, 64)
				n, err := r.Read(p)
				if err == io.EOF {
					after = fmt.Sprintf("Read #%d after the error %q returned a clean end of stream (%d, io.EOF)", k+1, readErr, n)
					return
				}
			}
		})
		if p2 != nil {
			pn = p2
		}
	}()
	pn = mon.Guard(func() {
		switch format {
		case "xz", "xz-multi":
			r, ctorErr = xz.ReaderConfig{DictCap: 4096}.NewReader(src)
		case "xz-single":
			r, ctorErr = xz.ReaderConfig{DictCap: 4096, SingleStream: true}.NewReader(src)
		case "lzma2":
			r, ctorErr = lzma.Reader2Config{DictCap: dict}.NewReader2(src)
		case "lzma":
			r, ctorErr = lzma.ReaderConfig{DictCap: 4096}.NewReader(src)
		}
		if ctorErr != nil {
			return
		}
		if sched == nil {
			out, readErr = io.ReadAll(r)
			return
		}
		if len(sched) == 1 && sched[0] == -1 {
			// drained with io.Copy into a plain writer: an optional io.WriterTo of the reader
			// would be used on this path
			var buf bytes.Buffer
			_, readErr = io.Copy(struct{ io.Writer }{&buf}, r)
			out = buf.Bytes()
			return
		}
		for i := 0; ; i++ {
			l := sched[len(sched)-1]
			if i < len(sched) {
				l = sched[i]
			}
			if l < 1 {
				l = 1
			}
			p := mon.GuardedBuf(l)
			n, err := r.Read(p)
			if n < 0 || n > l {
				panic(fmt.Sprintf("Read with a buffer of %d bytes returned n=%d", l, n))
			}
			if !mon.GuardIntact(p) {
				panic(fmt.Sprintf("Read with a buffer of %d bytes wrote behind the buffer (into its spare capacity, which is not the reader's)", l))
			}
			out = append(out, p[:n]...)
			if err == io.EOF {
				return
			}
			if err != nil {
				readErr = err
				return
			}
			if len(out) > 64<<20 {
				readErr = fmt.Errorf("harness: more than 64 MiB delivered")
				return
			}
		}
	})
	return
}

func libWriteXZ(cfg xz.WriterConfig, data []byte) []byte {
	var buf bytes.Buffer
	w, err := cfg.NewWriter(&buf)
	if err != nil {
		return nil
	}
	w.Write(data)
	if w.Close() != nil {
		return nil
	}
	return buf.Bytes()
}

func xzBounds(b []byte) []int {
	_, ss, err := ref.DecodeXZ(b, 0)
	if err != nil {
		return nil
	}
	var bs []int
	for _, s := range ss {
		bs = append(bs, s.Off, s.Off+12, s.IndexOff, s.FooterOff, s.End)
		for _, bl := range s.Blocks {
			bs = append(bs, bl.HeaderOff, bl.DataOff, bl.DataOff+bl.CompLen, bl.CheckOff)
			for _, ch := range bl.Chunks {
				bs = append(bs, bl.DataOff+ch.Offset)
			}
		}
	}
	return bs
}

// truncStreams builds the deterministic stream list for a tier.
func truncStreams(c *ev.Ctx) []tstream {
	r := prng.New(c.Seed, 5)
	var out []tstream
	add := func(s tstream) {
		if len(s.B) > 0 {
			out = append(out, s)
		}
	}
	nsmall := 12
	if thorough(c) {
		nsmall = 120
	}
	checks := []byte{xz.CRC32, xz.CRC64, xz.SHA256, 0}
	// library-written .xz, small, multi-block
	for i := 0; i < nsmall; i++ {
		fam := []string{"text", "lowent", "random", "altseg", "zeros", "nearrep"}[i%6]
		data := gen.Data(r, fam, r.Range(1, 2500))
		cfg := xz.WriterConfig{DictCap: 4096, BlockSize: int64(r.Pick(0, 300, 1000, 64)), Matcher: lzma.MatchAlgorithm(i % 2)}
		if i%8 == 7 && len(data) > 600 {
			data = data[:600]
		}
		if checks[i%4] == 0 {
			cfg.NoCheckSum = true
		} else {
			cfg.CheckSum = checks[i%4]
		}
		b := libWriteXZ(cfg, data)
		add(tstream{ID: fmt.Sprintf("libxz%d", i), Format: "xz", B: b, Content: data, Feat: fmt.Sprintf("library %s bs%d check%d", fam, cfg.BlockSize, checks[i%4])})
		if i%3 == 0 {
			add(tstream{ID: fmt.Sprintf("libxz%d-single", i), Format: "xz-single", B: b, Content: data, Feat: "library SingleStream"})
		}
	}
	// generated containers (size fields, several chunks per block, raw chunks)
	for i := 0; i < nsmall; i++ {
		rr := prng.New(c.Seed, 51, uint64(i))
		var stream, content []byte
		var feat string
		for try := 0; try < 20; try++ {
			stream, content, feat = genXZContainer(rr, false)
			_, ss, err := ref.DecodeXZ(stream, 0)
			if err == nil && len(ss) == 1 && ss[0].PaddingAfter == 0 && len(stream) < 4000 && len(ss[0].Blocks) > 0 {
				break
			}
			stream = nil
		}
		add(tstream{ID: fmt.Sprintf("genxz%d", i), Format: "xz", B: stream, Content: content, Feat: clipStr(feat, 200)})
	}
	// xz-utils corpus (small dictionary ones)
	names, _ := loadCorpus(c, "xz")
	cn := 0
	for _, n := range names {
		b, err := os.ReadFile(filepath.Join(c.Dir, "corpus", n))
		if err != nil || len(b) > 5000 {
			continue
		}
		content, ss, err := ref.DecodeXZ(b, 0)
		if err != nil || len(ss) != 1 || ss[0].PaddingAfter != 0 {
			continue
		}
		big := false
		for _, bl := range ss[0].Blocks {
			if bl.DictSize > 1<<20 {
				big = true
			}
		}
		if big {
			continue
		}
		cn++
		if !thorough(c) && cn > 5 {
			break
		}
		add(tstream{ID: "corpus:" + n, Format: "xz", B: b, Content: content, Feat: "xz-utils"})
	}
	// raw LZMA2: library Writer2 with flushes, and generated
	for i := 0; i < nsmall; i++ {
		var buf bytes.Buffer
		dc := r.Pick(4096, 8192)
		w, err := lzma.Writer2Config{DictCap: dc, Matcher: lzma.MatchAlgorithm(i % 2)}.NewWriter2(&buf)
		if err != nil {
			continue
		}
		var content []byte
		for j := r.Range(1, 5); j > 0; j-- {
			d := gen.Data(r, []string{"text", "random", "lowent"}[r.Intn(3)], r.Range(1, 600))
			w.Write(d)
			content = append(content, d...)
			w.Flush()
		}
		w.Close()
		add(tstream{ID: fmt.Sprintf("lib2-%d", i), Format: "lzma2", B: buf.Bytes(), Content: content, Dict: dc, Feat: "Writer2 with flushes"})
		rr := prng.New(c.Seed, 52, uint64(i))
		stream, cont, info := ref.GenLZMA2(rr, ref.LZMA2Plan{DictSize: 4096, NChunks: rr.Range(1, 6), OpsPer: rr.Pick(5, 50, 300)})
		if len(stream) < 5000 {
			add(tstream{ID: fmt.Sprintf("gen2-%d", i), Format: "lzma2", B: stream, Content: cont, Dict: 4096, Feat: fmt.Sprint(info.Chunks)})
		}
	}
	// classic .lzma, three termination modes, library and generator
	for i := 0; i < nsmall; i++ {
		mode := i % 3
		k := lzCase{LC: r.Intn(9), LP: r.Intn(5), PB: r.Intn(5), DictCap: 4096, BufSize: 4096, Matcher: i % 2, Mode: mode, ByteSink: i%4 < 2, Part: "one"}
		data := gen.Data(r, []string{"text", "lowent", "random", "zeros"}[i%4], r.Range(0, 2500))
		sink, dev, pn := runLZWriter(k, data)
		if dev == "" && pn == nil {
			add(tstream{ID: fmt.Sprintf("liblzma-%d", i), Format: "lzma", B: sink.Buf, Content: data, Feat: fmt.Sprintf("library mode%d", mode)})
		}
		rr := prng.New(c.Seed, 53, uint64(i))
		stream, cont, _ := ref.GenAlone(rr, mode, rr.Pick(0, 1, 20, 400))
		if len(stream) < 5000 {
			add(tstream{ID: fmt.Sprintf("genlzma-%d", i), Format: "lzma", B: stream, Content: cont, Feat: fmt.Sprintf("generated mode%d", mode)})
		}
	}
	// empty content in every termination mode (size 0 with and without end marker, marker only),
	// and one-byte content: the shortest streams there are
	for mode := 0; mode < 3; mode++ {
		for n := 0; n < 2; n++ {
			k := lzCase{LC: 3, LP: 0, PB: 2, DictCap: 4096, BufSize: 4096, Mode: mode, Part: "one"}
			data := []byte("x")[:n]
			if sink, dev, pn := runLZWriter(k, data); dev == "" && pn == nil {
				add(tstream{ID: fmt.Sprintf("liblzma-tiny-%d-%d", mode, n), Format: "lzma", B: sink.Buf, Content: data, Feat: fmt.Sprintf("library mode%d, %d content bytes", mode, n)})
			}
			if stream, cont, _ := ref.GenAlone(prng.New(c.Seed, 54, uint64(mode), uint64(n)), mode, n); len(stream) < 200 {
				add(tstream{ID: fmt.Sprintf("genlzma-tiny-%d-%d", mode, n), Format: "lzma", B: stream, Content: cont, Feat: fmt.Sprintf("generated mode%d, %d operations", mode, n)})
			}
		}
	}
	// multi-stream files
	for i := 0; i < nsmall/2+1; i++ {
		var b, content []byte
		legal := map[int]int{}
		ns := r.Range(2, 3)
		for s := 0; s < ns; s++ {
			d := gen.Data(r, "text", r.Range(0, 400))
			cfg := xz.WriterConfig{DictCap: 4096, CheckSum: checks[r.Intn(3)]}
			b = append(b, libWriteXZ(cfg, d)...)
			content = append(content, d...)
			legal[len(b)] = len(content)
			pad := 4 * r.Range(0, 2)
			for p := 4; p <= pad; p += 4 {
				legal[len(b)+p] = len(content)
			}
			b = append(b, make([]byte, pad)...)
		}
		add(tstream{ID: fmt.Sprintf("multi%d", i), Format: "xz-multi", B: b, Content: content, Legal: legal, Feat: fmt.Sprintf("%d streams with padding", ns)})
	}
	// streams longer than the reader's window (4 KiB): the decoder's ring buffer wraps, inside
	// raw chunks (incompressible data), compressed chunks, and at their borders
	nw := 4
	if thorough(c) {
		nw = 24
	}
	for i := 0; i < nw; i++ {
		shape := [][2]string{{"random", ""}, {"text", "random"}, {"random", "text"}, {"lowent", "random"}}[i%4]
		n := r.Pick(4200, 4700, 6000, 9000)
		d := gen.Data(r, shape[0], n)
		if shape[1] != "" {
			d = append(d[:n/2:n/2], gen.Data(r, shape[1], n-n/2)...)
		}
		var buf bytes.Buffer
		if w, err := (lzma.Writer2Config{DictCap: 4096, BufSize: 4096}).NewWriter2(&buf); err == nil {
			w.Write(d)
			w.Close()
			add(tstream{ID: fmt.Sprintf("wrap2-%d", i), Format: "lzma2", B: buf.Bytes(), Content: d, Dict: 4096, Feat: "content longer than the window: " + shape[0] + "+" + shape[1]})
		}
		switch i % 2 {
		case 0:
			add(tstream{ID: fmt.Sprintf("wrapxz-%d", i), Format: "xz", B: libWriteXZ(xz.WriterConfig{DictCap: 4096, BlockSize: int64(r.Pick(0, 5000))}, d), Content: d, Feat: "content longer than the window"})
		case 1:
			k := lzCase{LC: 3, LP: 0, PB: 2, DictCap: 4096, BufSize: 4096, Mode: i % 3, Part: "one"}
			if sk, dev, pn := runLZWriter(k, d); dev == "" && pn == nil {
				add(tstream{ID: fmt.Sprintf("wraplzma-%d", i), Format: "lzma", B: sk.Buf, Content: d, Feat: "content longer than the window"})
			}
		}
	}
	// long streams: cuts enumerated in windows around structure boundaries
	if thorough(c) {
		for i := 0; i < 30; i++ {
			data := gen.Data(r, []string{"altseg", "text", "random"}[i%3], r.Range(100000, 300000))
			b := libWriteXZ(xz.WriterConfig{DictCap: 65536, BlockSize: int64(r.Pick(0, 50000))}, data)
			add(tstream{ID: fmt.Sprintf("longxz%d", i), Format: "xz", B: b, Content: data, Bounds: xzBounds(b), Feat: "long library xz"})
		}
	}
	return out
}

func checkC05(c *ev.Ctx) {
	c.SetRule("fault = truncation. For every stream of the list (library-written, xz-utils-written and generated .xz incl. SingleStream mode; raw LZMA2 from Writer2 with flushes and from the generator; .lzma in the three termination modes from the library writer and the generator; multi-stream .xz with padding) every cut position 0..len-1 is tried (long streams: +-64 bytes around every structural boundary and every 97th byte). distinct non-trivial = distinct (stream, cut) pairs evaluated with a non-empty stream; per-stream exhaustiveness is listed")
	c.Assume("a constructor error counts as rejection only if it is not io.EOF itself")
	streams := truncStreams(c)
	c.Set("streams", len(streams))
	type job struct {
		s   *tstream
		cut int
	}
	var jobs []job
	exh := map[string]bool{}
	for i := range streams {
		s := &streams[i]
		if len(s.Bounds) == 0 {
			exh[s.ID] = true
			for k := 0; k < len(s.B); k++ {
				jobs = append(jobs, job{s, k})
			}
			continue
		}
		exh[s.ID] = false
		sel := map[int]bool{}
		for _, b := range s.Bounds {
			for k := b - 64; k <= b+64; k++ {
				if k >= 0 && k < len(s.B) {
					sel[k] = true
				}
			}
		}
		for k := 0; k < len(s.B); k += 97 {
			sel[k] = true
		}
		ks := make([]int, 0, len(sel))
		for k := range sel {
			ks = append(ks, k)
		}
		sort.Ints(ks)
		for _, k := range ks {
			jobs = append(jobs, job{s, k})
		}
	}
	c.MinEvals(int64(len(jobs) / 2))
	fmtCount := map[string]int{}
	for _, s := range streams {
		fmtCount[s.Format]++
	}
	c.Set("streams_by_format", fmtCount)
	c.Set("stream_exhaustive", exh)
	c.Exhaustive(true)
	c.Set("exhaustive_part", "cut positions per stream (all streams except the long ones, see stream_exhaustive); the stream list itself is a sample")
	par(len(jobs), func(i int) {
		j := jobs[i]
		s := j.s
		id := fmt.Sprintf("%s@%d", s.ID, j.cut)
		noteCase(id)
		if !want(c, id) {
			return
		}
		// every prefix is read four times: like io.ReadAll, one byte at a time, with a buffer
		// that the bytes decodable from the prefix fill exactly, and through io.Copy (the
		// verdict on a truncated stream must not depend on how the caller drains the reader)
		c.Eval(id, true)
		delivered := -1
		var cerr, rerr error
		var out []byte
		// ... and a fifth time from one of the concrete source types of production (buffered
		// readers of three sizes over a source that delivers in pieces, a real file, an
		// io.Pipe), rotating with the cut position
		srcKinds := []string{"bufio4096", "file", "bufio16", "pipe", "bufio-exact"}
		for si, schedName := range []string{"readall", "one-byte", "exact-fill", "io.Copy", "source-kind"} {
			var sched []int
			kind := ""
			switch si {
			case 4:
				// at every cut within 8 bytes behind a stream or padding boundary, elsewhere at
				// every fifth cut
				near := false
				for d := 0; d <= 8; d++ {
					if _, ok := s.Legal[j.cut-d]; ok {
						near = true
					}
				}
				if !near && j.cut%5 != 0 {
					continue
				}
				kind = srcKinds[(j.cut+j.cut/5)%len(srcKinds)]
				schedName = "source:" + kind
			case 1:
				sched = []int{1}
			case 2:
				if delivered <= 1 {
					continue
				}
				sched = []int{delivered}
			case 3:
				sched = []int{-1}
			}
			var pn *mon.Panic
			var after string
			out, cerr, rerr, after, pn = openReadSchedAfter(s.Format, s.B[:j.cut], s.Dict, sched, kind)
			if si == 0 {
				delivered = len(out)
			}
			c.Count("reads:"+schedName, 1)
			bad := false
			func() {
				det := map[string]any{"case_id": id, "format": s.Format, "features": s.Feat, "stream_len": len(s.B), "cut": j.cut, "stream_hex": ev.Hex(s.B, 1200),
					"ctor_error": fmt.Sprint(cerr), "read_error": fmt.Sprint(rerr), "delivered": len(out), "content_len": len(s.Content)}
				if pn != nil {
					det["what"] = "reader panicked on a prefix: " + pn.Value
					bad = true
					det["read_schedule"] = schedName
					c.Violation("panic-on-prefix:"+s.Format, det)
					return
				}
				if want, ok := s.Legal[j.cut]; ok {
					// cut on a stream / padding boundary of a multi-stream file
					c.Count("legal_boundary_cuts", 1)
					if cerr != nil || rerr != nil || !bytes.Equal(out, s.Content[:want]) {
						det["what"] = fmt.Sprintf("cut %d falls on a stream/padding boundary: want clean decode of %d bytes, got ctor=%v read=%v %d bytes", j.cut, want, cerr, rerr, len(out))
						bad = true
						det["read_schedule"] = schedName
						c.Violation("boundary-cut-not-clean", det)
					}
					return
				}
				if _, legal := s.Legal[j.cut]; after != "" && !legal && pn == nil {
					det["what"] = fmt.Sprintf("prefix of %d of %d bytes: %s", j.cut, len(s.B), after)
					c.Violation("error-then-clean-end:"+s.Format, det)
					return
				}
				rejected := (cerr != nil && cerr != io.EOF) || rerr != nil
				if !rejected {
					det["what"] = fmt.Sprintf("prefix of %d of %d bytes of a %s stream is taken as complete: constructor error %v, read ended cleanly after %d of %d content bytes", j.cut, len(s.B), s.Format, cerr, len(out), len(s.Content))
					bad = true
					det["read_schedule"] = schedName
					c.Violation("prefix-accepted:"+s.Format, det)
					return
				}
				if len(out) > len(s.Content) || !bytes.Equal(out, s.Content[:len(out)]) {
					det["what"] = fmt.Sprintf("bytes delivered before the error are not a prefix of the content (first difference at %d)", firstDiff(out, s.Content))
					bad = true
					det["read_schedule"] = schedName
					c.Violation("prefix-delivers-wrong-bytes:"+s.Format, det)
				}
				if cerr != nil {
					c.Count("rejected_at_open", 1)
				} else {
					c.Count("rejected_while_reading", 1)
				}
			}()
			if bad {
				break
			}
		}
		if i%7919 == 0 {
			c.Sample(map[string]any{"stream": s.ID, "format": s.Format, "stream_len": len(s.B), "cut": j.cut, "ctor_error": fmt.Sprint(cerr), "read_error": fmt.Sprint(rerr), "delivered": len(out)})
		}
	})
}
