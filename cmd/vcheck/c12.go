package main

import (
	"bytes"
	"fmt"
	"io"
	"os"
	"path/filepath"

	"github.com/ulikunitz/xz"
	"github.com/ulikunitz/xz/lzma"

	"verif/internal/ev"
	"verif/internal/gen"
	"verif/internal/lzc"
	"verif/internal/mon"
	"verif/internal/prng"
	"verif/internal/ref"
)

func init() { register("C12", "exploration", checkC12) }

type poolStream struct {
	ID      string
	B       []byte
	Content []byte
}

func c12Pool(c *ev.Ctx) []poolStream {
	r := prng.New(c.Seed, 12)
	var pool []poolStream
	for i, ck := range []byte{xz.CRC32, xz.CRC64, xz.SHA256, 0} {
		for _, n := range []int{0, 1, r.Range(2, 300), r.Range(300, 3000)} {
			cfg := xz.WriterConfig{DictCap: 4096, BlockSize: int64(r.Pick(0, 0, 200))}
			if ck == 0 {
				cfg.NoCheckSum = true
			} else {
				cfg.CheckSum = ck
			}
			d := gen.Data(r, []string{"text", "random", "lowent"}[(i+n)%3], n)
			b := libWriteXZ(cfg, d)
			if b != nil {
				pool = append(pool, poolStream{fmt.Sprintf("lib-ck%d-n%d", ck, n), b, d})
			}
		}
	}
	// streams from the specification-driven generator (every chunk kind, state and property
	// resets after uncompressed chunks, several blocks, size fields) and, when liblzma is there,
	// fresh xz-utils-style encodings of mixed data: what a chain member may legally look like
	// is not limited to what this library's writer emits
	for i := 0; i < 10; i++ {
		rr := prng.New(c.Seed, 127, uint64(i))
		for try := 0; try < 20; try++ {
			b, content, _ := genXZContainer(rr, false)
			o, ss, err := ref.DecodeXZ(b, 0)
			if err == nil && len(ss) == 1 && ss[0].PaddingAfter == 0 && bytes.Equal(o, content) && len(b) < 20000 {
				pool = append(pool, poolStream{fmt.Sprintf("gen%d", i), b, content})
				break
			}
		}
	}
	// members whose block starts with uncompressed chunks and brings its first LZMA chunk with a
	// dictionary reset (and other reset kinds in the middle), with payloads of some size
	for i, seq := range [][]string{{"rawD", "LRND", "L"}, {"rawD", "raw", "LRND"}, {"rawD", "LRN", "rawD", "LRND", "LR"}, {"LRND", "raw", "LR", "rawD", "LRN"}} {
		rr := prng.New(c.Seed, 129, uint64(i))
		got := 0
		for try := 0; try < 30 && got < 4; try++ {
			l2, parts := realiseSeqBulk(rr, seq, true, true)
			var content []byte
			for _, p := range parts {
				content = append(content, p...)
			}
			if len(l2) > 60000 {
				continue
			}
			b := ref.BuildXZ([]byte{ref.CheckCRC32, ref.CheckCRC64, ref.CheckNone, ref.CheckSHA256}[i], []ref.BlockSpec{{LZMA2: l2, Content: content, DictCode: 0}})
			if o, ss, err := ref.DecodeXZ(b, 0); err == nil && len(ss) == 1 && bytes.Equal(o, content) {
				if len(content) < 300 {
					continue
				}
				pool = append(pool, poolStream{fmt.Sprintf("resets%d-%d", i, got), b, content})
				c.Count("pool_members_with_reset_kinds", 1)
				got++
			}
		}
	}
	if lzc.Available() {
		for i := 0; i < 3; i++ {
			d := gen.Data(r, []string{"sandwich", "sandwich2", "altseg"}[i], 200000)
			if res := lzc.Encode(d, lzc.EncOpts{Kind: lzc.KindXZ, Preset: i, Check: []int{1, 4, 10}[i]}); res.OK() {
				if o, ss, err := ref.DecodeXZ(res.Out, 0); err == nil && len(ss) == 1 && bytes.Equal(o, d) {
					pool = append(pool, poolStream{fmt.Sprintf("liblzma-mixed%d", i), res.Out, d})
				}
			}
		}
	}
	names, _ := loadCorpus(c, "xz")
	for _, n := range names {
		b, err := os.ReadFile(filepath.Join(c.Dir, "corpus", n))
		if err != nil || len(b) > 1500 {
			continue
		}
		o, ss, err := ref.DecodeXZ(b, 0)
		if err != nil || len(ss) != 1 || ss[0].PaddingAfter != 0 {
			continue
		}
		if len(ss[0].Blocks) > 0 && ss[0].Blocks[0].DictSize > 1<<20 {
			continue
		}
		pool = append(pool, poolStream{"corpus:" + n, b, o})
	}
	return pool
}

func checkC12(c *ev.Ctx) {
	c.SetRule("lists of 1..5 valid single streams from a pool (library-written with all check types, empty and multi-block ones; xz-utils-written) joined by zero padding: every padding length 0..16 in every gap position and at the end with the other gaps in {0,4,8} (thorough: full product 0..16 for lists of up to 3), padding before the first stream, trailing non-zero bytes; each file is read with SingleStream off and on and compared with the homomorphism law. distinct non-trivial = distinct (list shape, padding vector, mode) with non-empty content")
	c.Assume("stream-padding rule of xz-file-format 1.0.4 (multiples of four zero bytes); liblzma LZMA_CONCATENATED as second opinion on files expected valid")
	pool := c12Pool(c)
	c.Set("pool_streams", len(pool))
	if len(pool) < 4 {
		c.Inconclusive("stream pool too small")
		return
	}
	type file struct {
		id    string
		idx   []int
		pads  []int // pads[i] after stream i
		lead  int
		trail []byte
	}
	var files []file
	r := prng.New(c.Seed, 121)
	nlists := 60
	if thorough(c) {
		nlists = 1200
	}
	for li := 0; li < nlists; li++ {
		n := 1 + li%5
		idx := make([]int, n)
		for i := range idx {
			idx[i] = r.Intn(len(pool))
		}
		for g := 0; g < n; g++ {
			for p := 0; p <= 16; p++ {
				pads := make([]int, n)
				for i := range pads {
					pads[i] = r.Pick(0, 4, 0, 8)
				}
				pads[g] = p
				files = append(files, file{id: fmt.Sprintf("L%d-g%d-p%d", li, g, p), idx: idx, pads: pads})
			}
		}
		for p := 1; p <= 16; p++ {
			files = append(files, file{id: fmt.Sprintf("L%d-lead%d", li, p), idx: idx, pads: make([]int, n), lead: p})
		}
		for t := 1; t <= 8; t++ {
			tb := make([]byte, t)
			r.Bytes(tb)
			tb[0] |= 1
			pads := make([]int, n)
			pads[n-1] = r.Pick(0, 4)
			files = append(files, file{id: fmt.Sprintf("L%d-trail%d", li, t), idx: idx, pads: pads, trail: tb})
		}
		if thorough(c) && n <= 3 && li < 40 {
			tot := 1
			for i := 0; i < n; i++ {
				tot *= 17
			}
			for v := 0; v < tot; v++ {
				pads := make([]int, n)
				x := v
				for i := range pads {
					pads[i] = x % 17
					x /= 17
				}
				files = append(files, file{id: fmt.Sprintf("L%d-full%d", li, v), idx: idx, pads: pads})
			}
		}
	}
	c.MinEvals(int64(len(files)))
	c12Hetero(c)
	c12Long(c, pool)
	par(len(files), func(i int) {
		f := files[i]
		var b, all []byte
		b = append(b, make([]byte, f.lead)...)
		valid := f.lead == 0 && len(f.trail) == 0
		for k, pi := range f.idx {
			b = append(b, pool[pi].B...)
			all = append(all, pool[pi].Content...)
			b = append(b, make([]byte, f.pads[k])...)
			if f.pads[k]%4 != 0 {
				valid = false
			}
		}
		b = append(b, f.trail...)
		first := pool[f.idx[0]]
		following := len(b) - f.lead - len(first.B)
		for variant := 0; variant < 6; variant++ {
			single := variant&1 == 1
			eofWithData := variant&2 == 2
			// variants 4 and 5: the exported field of the Reader (it embeds its ReaderConfig) is
			// given its value after NewReader returned, the constructor saw the opposite
			setLater := variant >= 4
			if setLater && i%3 != 0 {
				continue
			}
			id := fmt.Sprintf("%s-s%v-e%v", f.id, single, eofWithData)
			if setLater {
				id += "-later"
			}
			noteCase(id)
			if !want(c, id) {
				continue
			}
			// two kinds of source: a plain one and one that returns its last bytes together
			// with io.EOF (the io.Reader contract allows both)
			var out []byte
			var err error
			srcKind := "plain"
			if eofWithData {
				srcKind = "eof-with-data"
				src := mon.NewSource(b)
				src.Frag = "eofwith"
				pn := mon.Guard(func() {
					var r *xz.Reader
					r, err = xz.ReaderConfig{DictCap: 4096, SingleStream: single}.NewReader(src)
					if err != nil {
						err = fmt.Errorf("open: %w", err)
						return
					}
					out, err = io.ReadAll(r)
				})
				if pn != nil {
					err = pn
				}
			} else {
				if setLater {
					srcKind = "field-set-after-NewReader"
					pn := mon.Guard(func() {
						var r *xz.Reader
						r, err = xz.ReaderConfig{DictCap: 4096, SingleStream: !single}.NewReader(bytes.NewReader(b))
						if err != nil {
							err = fmt.Errorf("open: %w", err)
							return
						}
						r.SingleStream = single
						out, err = io.ReadAll(r)
					})
					if pn != nil {
						err = pn
					}
				} else {
					out, err = libXZ(b, xz.ReaderConfig{DictCap: 4096, SingleStream: single})
				}
			}
			c.Count("source:"+srcKind, 1)
			c.Eval(fmt.Sprintf("n%d-pads%v-lead%d-trail%d-s%v-e%v", len(f.idx), f.pads, f.lead, len(f.trail), single, eofWithData), len(all) > 0)
			det := map[string]any{"case_id": id, "streams": idsOf(pool, f.idx), "paddings": f.pads, "leading_padding": f.lead, "trailing_bytes": ev.Hex(f.trail, 16),
				"single_stream": single, "source": srcKind, "file_len": len(b), "file_hex": ev.Hex(b, 1500), "error": fmt.Sprint(err), "delivered": len(out)}
			switch {
			case single && f.lead > 0:
				if err == nil {
					det["what"] = "padding before the first stream accepted (SingleStream)"
					c.Violation("leading-padding-accepted", det)
				}
			case single:
				if !bytes.Equal(out, first.Content) {
					det["what"] = fmt.Sprintf("SingleStream: %d bytes delivered, first stream holds %d (first difference %d)", len(out), len(first.Content), firstDiff(out, first.Content))
					c.Violation("singlestream-content", det)
				} else if (following > 0) != (err != nil) {
					det["what"] = fmt.Sprintf("SingleStream: %d bytes follow the first stream, error = %v (want an error exactly when bytes follow)", following, err)
					c.Violation("singlestream-trailing", det)
				}
			case valid:
				if err != nil || !bytes.Equal(out, all) {
					det["what"] = fmt.Sprintf("chain of %d streams with paddings %v: error %v, %d bytes (want %d, first difference %d)", len(f.idx), f.pads, err, len(out), len(all), firstDiff(out, all))
					c.Violation("concatenation-law", det)
				} else if lzc.Available() {
					res := lzc.DecodeXZ(b, true, 0)
					if !res.OK() || !bytes.Equal(res.Out, all) {
						c.Inconclusive(fmt.Sprintf("liblzma disagrees on file %s expected valid: %v", id, res.Err()))
					} else {
						c.Count("reference_agreement", 1)
					}
				}
				c.Count("valid_chains", 1)
			default:
				if err == nil {
					det["what"] = fmt.Sprintf("invalid file accepted (leading padding %d, paddings %v, %d trailing bytes): clean end after %d bytes", f.lead, f.pads, len(f.trail), len(out))
					c.Violation("invalid-padding-accepted", det)
				}
				c.Count("invalid_files", 1)
			}
			if i%997 == 0 && !single {
				c.Sample(map[string]any{"streams": idsOf(pool, f.idx), "paddings": f.pads, "leading": f.lead, "trailing": len(f.trail), "valid": valid, "error": fmt.Sprint(err), "bytes_out": len(out)})
			}
		}
	})
}

// c12Hetero checks the concatenation law on chains whose members differ in everything a reader
// could wrongly carry over from one stream to the next: dictionary size (with matches reaching
// farther back than the previous stream's dictionary), lc/lp/pb, check type, block structure.
// Every ordered pair and seed-chosen triples, paddings 0/4/8, ReaderConfig.DictCap unset and 4096.
func c12Hetero(c *ev.Ctx) {
	r := prng.New(c.Seed, 125)
	type hs struct {
		id string
		b  []byte
		d  []byte
	}
	var hp []hs
	add := func(id string, cfg xz.WriterConfig, d []byte) {
		if b := libWriteXZ(cfg, d); b != nil {
			if o, _, err := ref.DecodeXZ(b, 0); err == nil && bytes.Equal(o, d) {
				hp = append(hp, hs{id, b, d})
			}
		}
	}
	far := func(n, gap int) []byte {
		x := gen.Data(r, "random", n)
		return append(append(append([]byte{}, x...), gen.Data(r, "text", gap)...), x...)
	}
	add("d4k-text", xz.WriterConfig{DictCap: 4096, CheckSum: xz.CRC32}, gen.Data(r, "text", 300))
	add("d4k-empty", xz.WriterConfig{DictCap: 4096, CheckSum: xz.CRC64}, nil)
	add("d64k-far", xz.WriterConfig{DictCap: 65536, CheckSum: xz.CRC64}, far(3000, 50000))
	add("d1m-far", xz.WriterConfig{DictCap: 1 << 20, CheckSum: xz.SHA256}, far(5000, 300000))
	add("d8m-default-far", xz.WriterConfig{}, far(4000, 1200000))
	add("d64k-lc0lp2pb0-blocks", xz.WriterConfig{DictCap: 65536, Properties: &lzma.Properties{LC: 0, LP: 2, PB: 0}, BlockSize: 7000, NoCheckSum: true}, gen.Data(r, "text", 30000))
	add("d32k-lc4pb4-bt", xz.WriterConfig{DictCap: 32768, Properties: &lzma.Properties{LC: 4, LP: 0, PB: 4}, Matcher: lzma.BinaryTree, CheckSum: xz.CRC32}, gen.Data(r, "lowent", 9000))
	add("d4k-raw", xz.WriterConfig{DictCap: 4096, CheckSum: xz.SHA256}, gen.Data(r, "random", 9000))
	if len(hp) < 6 {
		c.Inconclusive("hetero pool too small")
		return
	}
	var lists [][]int
	for a := range hp {
		for b := range hp {
			lists = append(lists, []int{a, b})
		}
	}
	nt := 24
	if thorough(c) {
		nt = 300
	}
	for i := 0; i < nt; i++ {
		lists = append(lists, []int{r.Intn(len(hp)), r.Intn(len(hp)), r.Intn(len(hp))})
	}
	par(len(lists), func(i int) {
		l := lists[i]
		rr := prng.New(c.Seed, 126, uint64(i))
		var b, all []byte
		var ids []string
		var pads []int
		for _, k := range l {
			b = append(b, hp[k].b...)
			all = append(all, hp[k].d...)
			p := rr.Pick(0, 4, 8)
			pads = append(pads, p)
			b = append(b, make([]byte, p)...)
			ids = append(ids, hp[k].id)
		}
		for _, dc := range []int{0, 4096} {
			id := fmt.Sprintf("H%d-dc%d", i, dc)
			noteCase(id)
			if !want(c, id) {
				continue
			}
			out, err := libXZ(b, xz.ReaderConfig{DictCap: dc})
			c.Eval(fmt.Sprintf("hetero-%v-dc%d", ids, dc), true)
			c.Count("hetero_chains", 1)
			if err != nil || !bytes.Equal(out, all) {
				c.Violation("concatenation-law", map[string]any{"case_id": id, "streams": ids, "paddings": pads, "reader_dictcap": dc, "file_len": len(b), "error": fmt.Sprint(err), "delivered": len(out),
					"what": fmt.Sprintf("chain %v (different dictionary sizes / properties / checks) with paddings %v, ReaderConfig.DictCap=%d: error %v, %d bytes (want %d, first difference %d)", ids, pads, dc, err, len(out), len(all), firstDiff(out, all))})
			}
		}
	})
}

// c12Long reads chains of more than a thousand small streams (with paddings 0, 4, 8 chosen by
// the seed) through one Reader: whatever a reader carries from stream to stream must not add up.
func c12Long(c *ev.Ctx, pool []poolStream) {
	nch := 4
	if thorough(c) {
		nch = 12
	}
	par(nch, func(i int) {
		id := fmt.Sprintf("long%d", i)
		noteCase(id)
		if !want(c, id) {
			return
		}
		r := prng.New(c.Seed, 128, uint64(i))
		var b, all []byte
		padTotal := 0
		n := 1200 + r.Intn(600)
		for k := 0; k < n; k++ {
			p := pool[r.Intn(len(pool))]
			if len(p.B) > 2000 {
				continue
			}
			b = append(b, p.B...)
			all = append(all, p.Content...)
			pad := r.Pick(0, 0, 4, 8)
			if i%2 == 1 {
				// the padding skipped by one reader adds up to a few MiB
				pad = r.Pick(0, 4, 1024, 2048, 4096, 4*r.Intn(1500))
			}
			b = append(b, make([]byte, pad)...)
			padTotal += pad
		}
		if i >= 2 && i%4 >= 2 {
			// one very long gap (tens of MiB of padding) in the middle of the chain
			m := pool[r.Intn(len(pool))]
			gap := r.Pick(3<<20, 24<<20, 40<<20, 48<<20+4)
			if i == 2 {
				gap = 3 << 20
			} else if i == 3 {
				gap = 40 << 20
			}
			b = append(b, make([]byte, gap)...)
			b = append(b, m.B...)
			all = append(all, m.Content...)
			padTotal += gap
		}
		c.Count("long_chain_padding_bytes", int64(padTotal))
		out, err := libXZ(b, xz.ReaderConfig{DictCap: []int{0, 4096}[i%2]})
		c.Eval(fmt.Sprintf("long-chain-%d", i%2), true)
		c.Count("long_chains", 1)
		c.Count("long_chain_streams", int64(n))
		if err != nil || !bytes.Equal(out, all) {
			c.Violation("concatenation-law", map[string]any{"case_id": id, "streams": n, "file_len": len(b), "error": fmt.Sprint(err), "delivered": len(out),
				"what": fmt.Sprintf("chain of %d small streams: error %v, %d bytes (want %d, first difference %d)", n, err, len(out), len(all), firstDiff(out, all))})
		}
	})
}

func idsOf(pool []poolStream, idx []int) []string {
	var s []string
	for _, i := range idx {
		s = append(s, pool[i].ID)
	}
	return s
}
