package main

import (
	"bytes"
	"encoding/json"
	"fmt"
	"os"
	"os/exec"
	"path/filepath"
	"regexp"
	"sort"
	"strings"

	"verif/internal/ev"
)

func init() { register("C14", "exploration", checkC14) }

type vraceResult struct {
	GOMAXPROCS    int               `json:"gomaxprocs"`
	InstanceRuns  int               `json:"instance_runs"`
	Digests       map[string]string `json:"digests"`
	Mismatch      []string          `json:"mismatch"`
	Errors        []string          `json:"errors"`
	Signatures    []string          `json:"interleaving_signatures"`
	BoundaryCalls int64             `json:"boundary_calls"`
	Switches      int64             `json:"goroutine_switches_observed"`
	Kinds         map[string]int    `json:"kinds"`
	Configs       int               `json:"distinct_configs"`
}

var raceFrame = regexp.MustCompile(`^\s+(github\.com/ulikunitz/xz\S+)\(\)`)

func checkC14(c *ev.Ctx) {
	c.SetRule("a -race build runs rounds of N in {16,2,4,32} goroutines, each with its own xz/LZMA/LZMA2 writer or reader (both matchers, varied lc/lp/pb, dictionary, block size, check; readers consume streams written in earlier rounds) through sinks/sources that record a global ticket and yield (runtime.Gosched) at seed-chosen calls; repeated as separate processes for GOMAXPROCS in {1,2,4,16} (the first use of every package-level facility happens inside the concurrent phase; the sequential reference runs come last). plus connected instances in a process of their own (one instance is the source or sink of another, io.Pipe pipelines across three formats, an instance stalled inside its source or sink call while others run to completion; a mutual block is reported by the Go runtime's deadlock detector). Oracles: zero race-detector reports with frames of the library; each goroutine's output equals the output of the same job run alone; identical bytes across goroutines, GOMAXPROCS settings and processes. distinct non-trivial = distinct interleaving signatures (hash of the goroutine sequence over boundary tickets) plus distinct job keys")
	c.Assume("the Go race detector only sees accesses that happened in these executions", "no golden digests are stored: outputs are compared among runs of the same tree")
	bin := os.Getenv("VERIF_VRACE")
	if bin == "" {
		c.Inconclusive("vrace binary not built (VERIF_VRACE unset)")
		return
	}
	rounds := 4
	if thorough(c) {
		rounds = 24
	}
	logdir := filepath.Join(c.WorkDir, "c14", fmt.Sprintf("%s-%d-%d", c.Tier, c.Seed, os.Getpid()))
	os.RemoveAll(logdir)
	os.MkdirAll(logdir, 0o755)
	defer os.RemoveAll(logdir)
	type proc struct {
		gmp int
		tag string
	}
	procs := []proc{{1, "p1"}, {2, "p2"}, {4, "p4"}, {16, "p16"}, {16, "p16b"}, {4, "p4b"}}
	results := make([]*vraceResult, len(procs))
	outs := make([]string, len(procs))
	// the processes run one after the other: each uses up to 32 goroutines itself
	for i, p := range procs {
		// the two repeat processes run without the ticket counter: its atomic operations order
		// the goroutines for the race detector and could hide a race (see cmd/vrace)
		cmd := exec.Command(bin, "-seed", fmt.Sprint(c.Seed), "-rounds", fmt.Sprint(rounds), fmt.Sprintf("-tickets=%v", !strings.HasSuffix(p.tag, "b")))
		cmd.Env = append(os.Environ(), fmt.Sprintf("GOMAXPROCS=%d", p.gmp), fmt.Sprintf("GORACE=halt_on_error=0 log_path=%s/race-%s", logdir, p.tag))
		var ob, eb bytes.Buffer
		cmd.Stdout, cmd.Stderr = &ob, &eb
		err := cmd.Run()
		outs[i] = clipStr(eb.String(), 2000)
		var r vraceResult
		if jerr := json.Unmarshal(ob.Bytes(), &r); jerr != nil {
			c.Violation("workload-process-died", map[string]any{"case_id": p.tag, "what": fmt.Sprintf("vrace (GOMAXPROCS=%d) ended abnormally: %v; stderr: %s", p.gmp, err, outs[i])})
			continue
		}
		results[i] = &r
	}
	// connected instances (cmd/vrace/chain.go): stacked, piped and hand-over scenarios; when the
	// instances block each other the Go runtime ends the process with its deadlock report
	// (plain build first: only there the runtime detects the deadlock; the -race build of the same
	// scenarios follows for the race reports, and only if the plain run came through)
	type chainProc struct {
		gmp, rounds int
		race        bool
	}
	chainProcs := []chainProc{{4, 4, false}, {4, 1, true}}
	if thorough(c) {
		chainProcs = []chainProc{{1, 40, false}, {16, 40, false}, {4, 6, true}}
	}
	vchain := os.Getenv("VERIF_VCHAIN")
	if vchain == "" {
		c.Inconclusive("plain build of vrace missing (VERIF_VCHAIN unset)")
		chainProcs = nil
	}
	blocked := false
	chainKinds := map[string]int{}
	var chainScen, chainBytes int64
	for _, cp := range chainProcs {
		gmp := cp.gmp
		tag := fmt.Sprintf("chain%d-race%v", gmp, cp.race)
		prog := vchain
		if cp.race {
			if blocked {
				continue
			}
			prog = bin
		}
		cmd := exec.Command(prog, "-mode=chain", "-seed", fmt.Sprint(c.Seed), "-rounds", fmt.Sprint(cp.rounds))
		cmd.Env = append(os.Environ(), fmt.Sprintf("GOMAXPROCS=%d", gmp), fmt.Sprintf("GORACE=halt_on_error=0 log_path=%s/race-%s", logdir, tag))
		var ob, eb bytes.Buffer
		cmd.Stdout, cmd.Stderr = &ob, &eb
		err := cmd.Run()
		var cr struct {
			Scenarios int            `json:"scenarios"`
			Kinds     map[string]int `json:"kinds"`
			Mismatch  []string       `json:"mismatch"`
			Errors    []string       `json:"errors"`
			Bytes     int64          `json:"bytes_through_connected_instances"`
		}
		if jerr := json.Unmarshal(ob.Bytes(), &cr); jerr != nil {
			es := eb.String()
			last := ""
			for _, l := range strings.Split(es, "\n") {
				if strings.HasPrefix(l, "scenario: ") {
					last = l[len("scenario: "):]
				}
			}
			if strings.Contains(es, "all goroutines are asleep - deadlock!") {
				at := strings.Index(es, "fatal error:")
				blocked = true
				c.Violation("instances-block-each-other", map[string]any{"case_id": tag, "scenario": last,
					"what":           fmt.Sprintf("connected instances (%s): every goroutine is blocked - the Go runtime reports a deadlock; distinct instances wait for each other", last),
					"goroutine_dump": clipStr(es[at:], 6000)})
			} else {
				blocked = true
				c.Violation("workload-process-died", map[string]any{"case_id": tag, "what": fmt.Sprintf("vrace -mode=chain (GOMAXPROCS=%d) ended abnormally in scenario %q: %v; stderr: %s", gmp, last, err, clipStr(es, 3000))})
			}
			continue
		}
		for _, m := range cr.Mismatch {
			c.Violation("output-differs-from-sequential", map[string]any{"case_id": tag, "what": fmt.Sprintf("connected instances, GOMAXPROCS=%d: %s", gmp, m)})
		}
		for _, e := range cr.Errors {
			c.Violation("instance-failed", map[string]any{"case_id": tag, "what": fmt.Sprintf("connected instances, GOMAXPROCS=%d: %s", gmp, e)})
		}
		for k, v := range cr.Kinds {
			chainKinds[k] += v
			c.Eval("connected:"+k, true)
		}
		chainScen += int64(cr.Scenarios)
		chainBytes += cr.Bytes
	}
	c.Set("connected_instance_scenarios", chainScen)
	c.Set("connected_instance_kinds", chainKinds)
	c.Set("bytes_through_connected_instances", chainBytes)
	// race reports
	files, _ := filepath.Glob(filepath.Join(logdir, "race-*"))
	reports := 0
	libReports := map[string]int{}
	var firstReport string
	for _, f := range files {
		b, _ := os.ReadFile(f)
		blocks := strings.Split(string(b), "WARNING: DATA RACE")
		for _, blk := range blocks[1:] {
			reports++
			var fr []string
			for _, l := range strings.Split(blk, "\n") {
				if m := raceFrame.FindStringSubmatch(l); m != nil {
					fr = append(fr, m[1])
				}
			}
			if len(fr) == 0 {
				continue
			}
			// de-duplicate by the outermost library entry points of the two stacks
			key := fr[0]
			if len(fr) > 1 {
				key += " <-> " + fr[len(fr)-1]
			}
			libReports[key]++
			if firstReport == "" {
				firstReport = clipStr(blk, 3000)
			}
		}
	}
	c.Set("race_reports_total", reports)
	c.Set("race_reports_in_library_dedup", len(libReports))
	if len(libReports) > 0 {
		keys := []string{}
		for k := range libReports {
			keys = append(keys, k)
		}
		sort.Strings(keys)
		c.Violation("data-race:"+keys[0], map[string]any{"case_id": "race", "what": fmt.Sprintf("%d race reports with library frames, %d distinct: %v", reports, len(libReports), keys), "first_report": firstReport})
	}
	// outputs
	sigs := map[string]bool{}
	var total, bcalls, sw int64
	kinds := map[string]int{}
	base := map[string]string{}
	for i, r := range results {
		if r == nil {
			continue
		}
		for _, m := range r.Mismatch {
			c.Violation("output-differs-from-sequential", map[string]any{"case_id": procs[i].tag, "what": fmt.Sprintf("GOMAXPROCS=%d: %s", r.GOMAXPROCS, m)})
		}
		for _, e := range r.Errors {
			c.Violation("instance-failed", map[string]any{"case_id": procs[i].tag, "what": fmt.Sprintf("GOMAXPROCS=%d: %s", r.GOMAXPROCS, e)})
		}
		for _, s := range r.Signatures {
			sigs[s] = true
			c.Eval("sig:"+s, true)
		}
		for k, d := range r.Digests {
			c.Eval("job:"+k, true)
			if b, ok := base[k]; ok && b != d {
				c.Violation("output-not-deterministic", map[string]any{"case_id": procs[i].tag, "what": fmt.Sprintf("job %s produced different bytes in different processes / GOMAXPROCS settings (%s vs %s)", k, b, d)})
			}
			base[k] = d
		}
		total += int64(r.InstanceRuns)
		bcalls += r.BoundaryCalls
		sw += r.Switches
		for k, v := range r.Kinds {
			kinds[k] += v
		}
		c.Sample(map[string]any{"gomaxprocs": r.GOMAXPROCS, "instance_runs": r.InstanceRuns, "boundary_calls": r.BoundaryCalls, "goroutine_switches_observed": r.Switches, "signatures": r.Signatures})
	}
	c.Set("instance_runs", total)
	c.Set("boundary_calls", bcalls)
	c.Set("goroutine_switches_observed_at_boundaries", sw)
	c.Set("distinct_interleaving_signatures", len(sigs))
	c.Set("instance_kinds", kinds)
	c.Set("processes", len(procs))
	c.MinEvals(20)
}
