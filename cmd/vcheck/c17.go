package main

import (
	"fmt"
	"io"
	"sync"

	"github.com/ulikunitz/xz"
	"github.com/ulikunitz/xz/lzma"

	"verif/internal/ev"
	"verif/internal/mon"
	"verif/internal/prng"
	"verif/internal/ref"
)

func init() { register("C17", "exploration", checkC17) }

type ratioCase struct {
	ID               string
	Kind             string // "run", "xx", "random"
	Writer           string // "xz", "lzma2"
	N                int    // run length / |X| / random length
	Byte             byte
	LC, LP, PB       int
	DictCap, BufSize int
	BlockSize        int64
	Matcher          int
	Seed             uint64
}

func (k ratioCase) desc() map[string]any {
	return map[string]any{"case_id": k.ID, "kind": k.Kind, "writer": k.Writer, "n": k.N, "byte": k.Byte, "lc": k.LC, "lp": k.LP, "pb": k.PB,
		"dictcap": k.DictCap, "bufsize": k.BufSize, "blocksize": k.BlockSize, "matcher": k.Matcher, "seed": k.Seed}
}

func (k ratioCase) input() []byte {
	switch k.Kind {
	case "run":
		b := make([]byte, k.N)
		for i := range b {
			b[i] = k.Byte
		}
		return b
	case "xx":
		b := make([]byte, 2*k.N)
		prng.New(k.Seed, 1).Bytes(b[:k.N])
		copy(b[k.N:], b[:k.N])
		return b
	}
	b := make([]byte, k.N)
	prng.New(k.Seed, 1).Bytes(b)
	return b
}

func checkC17(c *ev.Ctx) {
	c.SetRule("three input families with the bounds of the property statement (allowance A = 128 + 64*blocks): runs of one byte value (n from 600 up; bound n/500 + A), X||X with uniformly random X and |X| <= DictCap incl. |X| = DictCap exactly (bound 1.15*|X| + A), uniformly random data with DictCap >= 64 KiB and no Flush (bound n + n/500 + A); xz.Writer, lzma.Writer2 and (runs and X||X) the classic lzma.Writer with capacities off the 2^n grid, both matchers, varied lc/lp/pb, BufSize, BlockSize, DictCap. distinct non-trivial = distinct (family | writer | matcher | dict class | length class | bufsize | blocksize class | lc lp pb)")
	c.Assume("the number of blocks is taken from the independent parser of the emitted stream (1 for LZMA2 streams)")
	r := prng.New(c.Seed, 17)
	var cases []ratioCase
	n := 600
	if thorough(c) {
		n = 4000
	}
	for i := 0; i < n; i++ {
		k := ratioCase{ID: fmt.Sprintf("r%d", i), Seed: r.U64(), Matcher: i % 2}
		pp := lclp[r.Intn(len(lclp))]
		k.LC, k.LP, k.PB = pp[0], pp[1], r.Intn(5)
		k.BufSize = r.Pick(273, 300, 4096, 4096, 65536)
		k.Writer = []string{"xz", "lzma2"}[r.Intn(2)]
		switch i % 3 {
		case 0:
			k.Kind = "run"
			k.Byte = byte(r.Pick(0, 1, 0x7f, 0xff, r.Intn(256)))
			k.DictCap = r.Pick(4096, 8192, 65536, 1<<20)
			if k.Matcher == 1 {
				k.N = r.Pick(600, 1000, 5000, 20000, 60000)
				if thorough(c) && r.Chance(1, 10) {
					k.N = 200000
				}
			} else {
				k.N = r.Pick(600, 1000, 5000, 70000, 500000, 1<<20, 2<<20+5, 4<<20)
			}
		case 1:
			k.Kind = "xx"
			k.DictCap = r.Pick(4096, 8192, 65536, 65536, 1<<20)
			if r.Chance(1, 12) && k.Matcher == 0 {
				k.DictCap = 8 << 20
			}
			maxX := k.DictCap
			if maxX > 1<<20 {
				maxX = 1 << 20
			}
			k.N = r.Pick(600, 1000, 4000, 4096, maxX, maxX-1, maxX/2, r.Range(600, maxX))
			if k.N > maxX {
				k.N = maxX
			}
			if k.Matcher == 1 && k.N > 300000 {
				k.N = 300000
			}
		default:
			k.Kind = "random"
			k.DictCap = r.Pick(65536, 65536, 65537, 1<<20, 100000)
			if r.Chance(1, 15) && k.Matcher == 0 {
				k.DictCap = 8 << 20
			}
			k.N = r.Pick(1024, 5000, 65536, 70000, 200000, 1<<20, r.Range(1024, 600000))
			if thorough(c) && r.Chance(1, 20) {
				k.N = 8 << 20
			}
			if k.Matcher == 1 && k.N > 1<<20 {
				k.N = 1 << 20
			}
		}
		// X||X: a new block starts with an empty dictionary, so both copies must share a block
		if k.Writer == "xz" && k.Kind != "xx" && r.Chance(1, 3) {
			k.BlockSize = int64(r.Pick(20000, 65536, 100000, 300000))
		}
		cases = append(cases, k)
		if i%4 == 1 && k.Kind != "random" {
			// the same case for the classic .lzma writer (the first two bounds hold "with every
			// supported match finder", whatever the container), with dictionary capacities off the
			// 2^n / 3*2^n grid as well and |X| equal to or just below the capacity
			rr := prng.New(c.Seed, 171, uint64(i))
			k.ID += "-lzma"
			k.Writer = "lzma"
			k.DictCap = rr.Pick(k.DictCap, 5000, 100000, 1<<20-1, 1<<20+1<<18, 70001)
			if k.Kind == "xx" {
				k.N = rr.Pick(k.DictCap, k.DictCap-1, k.DictCap-k.DictCap/10, k.N)
				if k.N > k.DictCap {
					k.N = k.DictCap
				}
				if k.Matcher == 1 && k.N > 300000 {
					k.N = 300000
				}
			}
			cases = append(cases, k)
		}
	}
	// amounts beyond a few MiB: what a writer learns or counts over many chunks (heuristics
	// for incompressible data, statistics, counters) must not spoil a later far repetition
	bigs := []ratioCase{
		{ID: "big-xx-7M", Kind: "xx", Writer: "xz", N: 7 << 20, DictCap: 8 << 20},
		{ID: "big-run-48M", Kind: "run", Writer: "lzma2", N: 48 << 20, Byte: 0x55, DictCap: 8 << 20},
		// the binary tree matcher with a window of MiB (its search budget per position is fixed,
		// the number of candidates grows with the window), through the classic writer, which
		// cannot fall back to storing a chunk
		{ID: "big-xx-2M-bt-lzma", Kind: "xx", Writer: "lzma", N: 2 << 20, DictCap: 2 << 20, Matcher: 1},
	}
	if thorough(c) {
		bigs = append(bigs,
			ratioCase{ID: "big-xx-8M", Kind: "xx", Writer: "lzma2", N: 8 << 20, DictCap: 8 << 20},
			ratioCase{ID: "big-xx-12M", Kind: "xx", Writer: "xz", N: 12 << 20, DictCap: 16 << 20},
			ratioCase{ID: "big-xx-3M-bt", Kind: "xx", Writer: "xz", N: 3 << 20, DictCap: 4 << 20, Matcher: 1},
			ratioCase{ID: "big-random-24M", Kind: "random", Writer: "xz", N: 24 << 20, DictCap: 8 << 20},
			ratioCase{ID: "big-run-200M", Kind: "run", Writer: "xz", N: 200 << 20, Byte: 0, DictCap: 1 << 20})
	}
	for _, k := range bigs {
		k.LC, k.LP, k.PB, k.BufSize, k.Seed = 3, 0, 2, 4096, r.U64()|3
		cases = append(cases, k)
	}
	// X||X inside one block of a writer with a finite BlockSize and a look-ahead buffer of various
	// sizes (round 16): block size and buffer size must not shorten the distances the dictionary allows
	for j, pc := range [][4]int{{400 << 10, 1 << 20, 1 << 20, 768 << 10}, {100000, 1 << 17, 200000, 65536}, {300000, 1 << 19, 600001, 300000}, {65536, 65536, 140000, 70000}} {
		cases = append(cases, ratioCase{ID: fmt.Sprintf("blockbuf-xx-%d", j), Kind: "xx", Writer: "xz", N: pc[0], DictCap: pc[1], BlockSize: int64(pc[2]), BufSize: pc[3],
			LC: 3, LP: 0, PB: 2, Matcher: j % 2, Seed: prng.New(c.Seed, 172, uint64(j)).U64() | 3})
	}
	c.MinEvals(int64(n / 2))
	var fracMu sync.Mutex
	maxFrac := map[string]float64{}
	defer func() { c.Set("max_output_as_fraction_of_bound", maxFrac) }()
	par(len(cases), func(i int) {
		k := cases[i]
		noteCase(k.ID)
		if !want(c, k.ID) {
			return
		}
		in := k.input()
		sink := mon.NewSink()
		var werr error
		flushed := false
		pn := mon.Guard(func() {
			props := &lzma.Properties{LC: k.LC, LP: k.LP, PB: k.PB}
			if k.Writer == "xz" {
				cfg := xz.WriterConfig{Properties: props, DictCap: k.DictCap, BufSize: k.BufSize, BlockSize: k.BlockSize, Matcher: lzma.MatchAlgorithm(k.Matcher)}
				if k.Seed%3 == 1 {
					// the configuration variable has a history: verified with a small dictionary,
					// used for another writer, then set to the values of this case
					cfg = xz.WriterConfig{DictCap: 4096}
					cfg.Verify()
					if w0, err := cfg.NewWriter(io.Discard); err == nil {
						w0.Write([]byte("earlier stream"))
						w0.Close()
					}
					cfg.Properties, cfg.DictCap, cfg.Matcher = props, k.DictCap, lzma.MatchAlgorithm(k.Matcher)
					if k.BufSize != 0 {
						cfg.BufSize = k.BufSize
					}
					if k.BlockSize != 0 {
						cfg.BlockSize = k.BlockSize
					}
				}
				w, err := cfg.NewWriter(sink)
				if err != nil {
					werr = err
					return
				}
				if _, werr = w.Write(in); werr != nil {
					return
				}
				werr = w.Close()
			} else if k.Writer == "lzma" {
				if k.LC+k.LP > 4 {
					props = &lzma.Properties{LC: 3, LP: 0, PB: k.PB}
				}
				w, err := lzma.WriterConfig{Properties: props, DictCap: k.DictCap, BufSize: k.BufSize, Matcher: lzma.MatchAlgorithm(k.Matcher), EOSMarker: k.Seed%2 == 0, SizeInHeader: k.Seed%2 == 1, Size: int64(len(in))}.NewWriter(sink)
				if err != nil {
					werr = err
					return
				}
				if _, werr = w.Write(in); werr != nil {
					return
				}
				werr = w.Close()
			} else {
				w, err := lzma.Writer2Config{Properties: props, DictCap: k.DictCap, BufSize: k.BufSize, Matcher: lzma.MatchAlgorithm(k.Matcher)}.NewWriter2(sink)
				if err != nil {
					werr = err
					return
				}
				if k.Kind == "xx" && k.Seed%4 == 0 {
					// the same bytes with a Flush between the two copies: the bound on X||X does
					// not exclude it (only the random-data bound is stated 'without Flush')
					if _, werr = w.Write(in[:k.N]); werr != nil {
						return
					}
					if werr = w.Flush(); werr != nil {
						return
					}
					in2 := in[k.N:]
					if _, werr = w.Write(in2); werr != nil {
						return
					}
					flushed = true
				} else if _, werr = w.Write(in); werr != nil {
					return
				}
				werr = w.Close()
			}
		})
		if flushed {
			c.Count("xx_with_flush_between_copies", 1)
		}
		if pn != nil || werr != nil {
			c.Inconclusive(fmt.Sprintf("writer failed in case %s (judged by C01/C08): %v %v", k.ID, werr, pn))
			return
		}
		blocks := 1
		if k.Writer == "xz" {
			if bl, err := ref.WalkXZ(sink.Buf); err == nil && len(bl) > 0 {
				blocks = len(bl)
			}
		}
		A := int64(128 + 64*blocks)
		out := int64(len(sink.Buf))
		var bound int64
		switch k.Kind {
		case "run":
			bound = int64(k.N)/500 + A
		case "xx":
			bound = int64(float64(k.N)*1.15) + A
		default:
			bound = int64(k.N) + int64(k.N)/500 + A
		}
		cls := fmt.Sprintf("%s|%s|m%d|d%s|n%s|b%d|bs%s|%d%d%d", k.Kind, k.Writer, k.Matcher, sizeClass(k.DictCap), sizeClass(k.N), k.BufSize, sizeClass(int(k.BlockSize)), k.LC, k.LP, k.PB)
		c.Eval(cls, true)
		c.Count("kind:"+k.Kind, 1)
		fracMu.Lock()
		if f := float64(out) / float64(bound); f > maxFrac[k.Kind] {
			maxFrac[k.Kind] = f
		}
		fracMu.Unlock()
		if out > bound {
			det := k.desc()
			det["output_len"] = out
			det["bound"] = bound
			det["blocks"] = blocks
			det["input_len"] = len(in)
			det["what"] = fmt.Sprintf("%s family, %s writer, matcher %d, DictCap %d: %d input bytes (parameter n=%d) compress to %d bytes, bound %d (allowance %d for %d block(s))", k.Kind, k.Writer, k.Matcher, k.DictCap, len(in), k.N, out, bound, A, blocks)
			c.Violation(k.Kind+"-bound", det)
		}
		if i%53 == 0 {
			c.Sample(map[string]any{"case": k.desc(), "input_len": len(in), "output_len": out, "bound": bound, "blocks": blocks})
		}
	})
}
