package main

import (
	"bytes"
	"crypto/sha256"
	"encoding/hex"
	"fmt"
	"os"
	"path/filepath"

	"verif/internal/ev"
	"verif/internal/gen"
	"verif/internal/lzc"
	"verif/internal/prng"
	"verif/internal/ref"
)

func init() { register("C07", "exploration", checkC07) }

func checkC07(c *ev.Ctx) {
	c.SetRule("writer side: classic-LZMA writer cases restricted to lc+lp<=4 (all 75 such property codes x both matchers, then random draws as in C06); the emitted stream is decoded by liblzma's alone decoder and by the strict reference decoder and its header fields are compared with the configuration and with what the reference finds (distances, marker). reader side: frozen xz-utils .lzma corpus, fresh liblzma alone encodings (random lc/lp/pb/dict/mode/mf) and generated streams (random legal operation sequences, any lc/lp/pb incl. lc+lp>4, three termination modes, zero-length content), each admitted only when the references agree, read with lzma.Reader. distinct non-trivial = distinct (side | source | property code | mode | class of length)")
	c.Assume("validity of reader-side streams = internal/ref accepts (and liblzma agrees when lc+lp<=4; liblzma refuses lc+lp>4)")
	nw, nfresh, ngen := 2000, 1000, 6000
	if thorough(c) {
		nw, nfresh, ngen = 30000, 15000, 120000
	}
	c.MinEvals(int64(nw))
	c.Set("liblzma_linked", lzc.Available())
	// ---- writer side ----
	cases := lzCases(c.Seed, 7, nw, true)
	par(len(cases), func(i int) {
		k := cases[i]
		k.ID = "w" + k.ID
		noteCase(k.ID)
		if !want(c, k.ID) {
			return
		}
		data := gen.Data(prng.New(k.Seed, 1), k.Family, k.N)
		det := k.desc()
		inputDetail(det, data)
		sink, dev, pn := runLZWriter(k, data)
		c.Eval("writer|"+k.class(), len(data) > 0)
		if pn != nil || dev != "" {
			c.Count("writer_cases_without_stream", 1) // judged by C06
			return
		}
		det["output_len"] = len(sink.Buf)
		noteCarry(c, k.Family, sink.Buf)
		det["output_head"] = ev.Hex(sink.Buf, 128)
		ro, info, rerr := ref.DecodeAlone(sink.Buf, 0)
		fail := func(sig, what string) {
			det["what"] = what
			c.Violation(sig, det)
		}
		if rerr != nil || !bytes.Equal(ro, data) {
			fail("ref-rejects-writer-output", fmt.Sprintf("reference .lzma decoder: err=%v, %d bytes (input %d, first difference %d)", rerr, len(ro), len(data), firstDiff(ro, data)))
			return
		}
		if info.Consumed != len(sink.Buf) {
			fail("trailing-bytes", fmt.Sprintf("stream ends after %d of %d emitted bytes", info.Consumed, len(sink.Buf)))
		}
		if info.Props != (ref.Props{LC: k.LC, LP: k.LP, PB: k.PB}) {
			fail("header-props", fmt.Sprintf("header properties %+v, configured lc=%d lp=%d pb=%d", info.Props, k.LC, k.LP, k.PB))
		}
		if int64(info.DictSize) < info.Stats.MaxDist {
			fail("header-dict-too-small", fmt.Sprintf("header dictionary size %d smaller than the largest distance used %d", info.DictSize, info.Stats.MaxDist))
		}
		if int64(info.DictSize) != int64(k.DictCap) {
			// not demanded by the property; recorded for the reader of the evidence
			c.Count("header_dict_differs_from_dictcap", 1)
		}
		switch k.Mode {
		case 0:
			if info.SizeField >= 0 || !info.Marker {
				fail("termination-mode", fmt.Sprintf("marker-only mode: size field %d, marker %v", info.SizeField, info.Marker))
			}
		case 1:
			if info.SizeField != int64(len(data)) || info.Marker {
				fail("termination-mode", fmt.Sprintf("size-only mode: size field %d (input %d), marker %v", info.SizeField, len(data), info.Marker))
			}
		case 2:
			if info.SizeField != int64(len(data)) || !info.Marker {
				fail("termination-mode", fmt.Sprintf("size+marker mode: size field %d (input %d), marker %v", info.SizeField, len(data), info.Marker))
			}
		}
		if lzc.Available() {
			res := lzc.DecodeAlone(sink.Buf, 0)
			if !res.OK() || !bytes.Equal(res.Out, data) {
				fail("liblzma-rejects-writer-output", fmt.Sprintf("liblzma alone decoder: %v, %d bytes (input %d)", res.Err(), len(res.Out), len(data)))
			} else {
				c.Count("reference_agreement_writer", 1)
			}
		}
		c.Count("writer_streams_judged", 1)
		if i%151 == 0 {
			c.Sample(map[string]any{"side": "writer", "case": k.desc(), "header_hex": ev.Hex(sink.Buf[:13], 13), "max_distance": info.Stats.MaxDist, "marker": info.Marker})
		}
	})
	// ---- reader side ----
	type vs struct {
		ID, Src, Feat string
		B, Content    []byte
	}
	var streams []vs
	names, man := loadCorpus(c, "lzma")
	for _, n := range names {
		b, err := os.ReadFile(filepath.Join(c.Dir, "corpus", n))
		if err != nil {
			c.Inconclusive("corpus file missing: " + n)
			continue
		}
		out, _, err := ref.DecodeAlone(b, 0)
		h := sha256.Sum256(out)
		if err != nil || hex.EncodeToString(h[:]) != man[n].SHA256 {
			c.Count("generator_rejected", 1)
			c.Inconclusive(fmt.Sprintf("reference cannot reproduce corpus file %s: %v", n, err))
			continue
		}
		streams = append(streams, vs{"corpus:" + n, "corpus", fmt.Sprint(man[n].Args), b, out})
	}
	fresh := make([]*vs, nfresh)
	if lzc.Available() {
		par(nfresh, func(i int) {
			r := prng.New(c.Seed, 71, uint64(i))
			fam := gen.Families[r.Intn(len(gen.Families))]
			data := gen.Data(r, fam, r.Pick(0, 1, 2, 50, 3000, 70000, 150000))
			o := lzcRandOpts(r, lzc.KindAlone)
			res := lzc.Encode(data, o)
			if !res.OK() {
				c.Count("liblzma_encode_failed", 1)
				return
			}
			out, _, err := ref.DecodeAlone(res.Out, 0)
			if err != nil || !bytes.Equal(out, data) {
				c.Count("generator_rejected", 1)
				c.Inconclusive(fmt.Sprintf("reference rejects liblzma .lzma stream fresh%d: %v", i, err))
				return
			}
			fresh[i] = &vs{fmt.Sprintf("fresh%d", i), "liblzma", fmt.Sprintf("%s lc%d lp%d pb%d mf%d custom=%v", fam, o.LC, o.LP, o.PB, o.MF, o.Custom), res.Out, data}
		})
	}
	gens := make([]*vs, ngen)
	par(ngen, func(i int) {
		r := prng.New(c.Seed, 72, uint64(i))
		mode := i % 3
		stream, content, info := ref.GenAlone(r, mode, r.Pick(0, 0, 1, 2, 10, 100, 1000, 8000))
		p := info.Props[0]
		out, ai, err := ref.DecodeAlone(stream, 0)
		if err != nil || !bytes.Equal(out, content) || ai.Consumed != len(stream) {
			c.Count("generator_rejected", 1)
			c.Inconclusive(fmt.Sprintf("reference rejects generated .lzma stream gen%d: %v", i, err))
			return
		}
		if lzc.Available() && p.LC+p.LP <= 4 {
			res := lzc.DecodeAlone(stream, 0)
			if !res.OK() || !bytes.Equal(res.Out, content) {
				c.Count("generator_rejected", 1)
				c.Inconclusive(fmt.Sprintf("liblzma rejects generated .lzma stream gen%d (mode %d props %+v): %v", i, mode, p, res.Err()))
				return
			}
			c.Count("reference_agreement_reader", 1)
		}
		c.Count("gen_ops_rep1to3", int64(info.Stats.Reps[1]+info.Stats.Reps[2]+info.Stats.Reps[3]))
		c.Count("gen_ops_shortrep", int64(info.Stats.ShortReps))
		c.Count("gen_ops_match", int64(info.Stats.Matches))
		gens[i] = &vs{fmt.Sprintf("gen%d", i), "refenc", fmt.Sprintf("mode%d p%d len%s", mode, p.Code(), sizeClass(len(content))), stream, content}
	})
	for _, s := range fresh {
		if s != nil {
			streams = append(streams, *s)
		}
	}
	for _, s := range gens {
		if s != nil {
			streams = append(streams, *s)
		}
	}
	par(len(streams), func(i int) {
		s := streams[i]
		noteCase(s.ID)
		if !want(c, s.ID) {
			return
		}
		for _, dc := range []int{4096, 1 << 20} {
			out, err, pn := readLZMA(s.B, dc)
			c.Eval("reader|"+s.Src+"|"+s.Feat, true)
			if pn != nil || err != nil || !bytes.Equal(out, s.Content) {
				what := fmt.Sprintf("valid .lzma stream %s (%s) read with DictCap %d: error %v after %d of %d bytes (first difference %d)", s.ID, s.Feat, dc, err, len(out), len(s.Content), firstDiff(out, s.Content))
				if pn != nil {
					what = "lzma.Reader panicked: " + pn.Value
				}
				sig := "valid-lzma-rejected:" + s.Src
				if err == nil && pn == nil {
					sig = "valid-lzma-wrong-bytes:" + s.Src
				}
				c.Violation(sig, map[string]any{"case_id": s.ID, "what": what, "stream_hex": ev.Hex(s.B, 2048), "stream_len": len(s.B), "features": s.Feat})
				break
			}
		}
		c.Count("reader_streams_from_"+s.Src, 1)
		if i%307 == 0 {
			c.Sample(map[string]any{"side": "reader", "id": s.ID, "source": s.Src, "features": s.Feat, "stream_bytes": len(s.B), "content_bytes": len(s.Content)})
		}
	})
}
