package main

import (
	"bytes"
	"errors"
	"fmt"
	"io"

	"github.com/ulikunitz/xz"
	"github.com/ulikunitz/xz/lzma"

	"verif/internal/ev"
	"verif/internal/gen"
	"verif/internal/mon"
	"verif/internal/prng"
	"verif/internal/ref"
)

func init() { register("C09", "fault_enumeration", checkC09) }

// wcase is a writer history replayed under every sink fault.
type wcase struct {
	ID    string
	Kind  string // "xz", "lzma", "lzma-bytesink", "lzma2"
	Data  []byte
	Parts []int
	Flush map[int]bool // lzma2: flush after write i
	XZ    xz.WriterConfig
	LZ    lzma.WriterConfig
	L2    lzma.Writer2Config
	Feat  string
	Tail  int // > 0: thinned fault positions for a history with thousands of similar sink calls
}

type wresult struct {
	calls    []string
	anyErr   bool
	panic    *mon.Panic
	allNil   bool
	closeLen int // sink length when the first Close returned
}

// runW replays the history on the given sink.
func (k *wcase) run(sink *mon.Sink) wresult {
	var res wresult
	note := func(name string, err error) {
		res.calls = append(res.calls, fmt.Sprintf("%s=%v", name, err))
		if err != nil {
			res.anyErr = true
		}
	}
	res.panic = mon.Guard(func() {
		var w io.Writer = sink
		if k.Kind == "lzma-bytesink" {
			w = mon.ByteSink{Sink: sink}
		}
		var wr io.Writer
		var closer func() error
		var flusher func() error
		switch k.Kind {
		case "xz":
			x, err := k.XZ.NewWriter(w)
			note("NewWriter", err)
			if err != nil {
				return
			}
			wr, closer = x, x.Close
		case "lzma", "lzma-bytesink":
			x, err := k.LZ.NewWriter(w)
			note("NewWriter", err)
			if err != nil {
				return
			}
			wr, closer = x, x.Close
		case "lzma2":
			x, err := k.L2.NewWriter2(w)
			note("NewWriter2", err)
			if err != nil {
				return
			}
			wr, closer, flusher = x, x.Close, x.Flush
		}
		pos := 0
		for i, l := range k.Parts {
			n, err := callerWrite(wr, k.Data[pos:pos+l], uint64(pos+l))
			note(fmt.Sprintf("Write(%d)->%d", l, n), err)
			pos += l
			if k.Flush[i] && flusher != nil {
				note("Flush", flusher())
			}
		}
		note("Close", closer())
		res.closeLen = len(sink.Buf)
		// a Close issued after the failure (or after success) must not panic
		err := closer()
		res.calls = append(res.calls, fmt.Sprintf("Close#2=%v", err))
		if errors.Is(err, mon.ErrInjected) {
			res.anyErr = true // the second Close touched the sink again and reported its failure
		}
	})
	res.allNil = !res.anyErr
	return res
}

func (k *wcase) validate(b []byte) error {
	switch k.Kind {
	case "xz":
		o, _, err := ref.DecodeXZ(b, 0)
		if err != nil {
			return err
		}
		if !bytes.Equal(o, k.Data) {
			return errors.New("content differs")
		}
	case "lzma", "lzma-bytesink":
		o, info, err := ref.DecodeAlone(b, 0)
		if err != nil {
			return err
		}
		if !bytes.Equal(o, k.Data) || info.Consumed != len(b) {
			return errors.New("content differs")
		}
	case "lzma2":
		o, info, err := ref.DecodeLZMA2(b, int64(k.L2.DictCap), false, 0)
		if err != nil {
			return err
		}
		if !bytes.Equal(o, k.Data) || info.Consumed != len(b) {
			return errors.New("content differs")
		}
	}
	return nil
}

func c09WriterCases(c *ev.Ctx) []wcase {
	r := prng.New(c.Seed, 9)
	n := 4
	if thorough(c) {
		n = 120
	}
	var out []wcase
	for i := 0; i < n; i++ {
		// multi-block xz
		data := gen.Data(r, []string{"text", "altseg", "random", "lowent"}[i%4], r.Range(200, 3000))
		k := wcase{ID: fmt.Sprintf("xz%d", i), Kind: "xz", Data: data, Parts: gen.Partition(r, "random", len(data), nil),
			XZ: xz.WriterConfig{DictCap: 4096, BlockSize: int64(r.Pick(100, 257, 1000)), CheckSum: byte(r.Pick(1, 4, 10)), Matcher: lzma.MatchAlgorithm(i % 2)}}
		k.Feat = fmt.Sprintf("multi-block xz bs=%d", k.XZ.BlockSize)
		out = append(out, k)
		// single block, large enough for several chunks
		data = append(gen.Data(r, "random", 70000), gen.Data(r, "text", 30000)...)
		out = append(out, wcase{ID: fmt.Sprintf("xzbig%d", i), Kind: "xz", Data: data, Parts: gen.Partition(r, "random", len(data), nil),
			XZ: xz.WriterConfig{DictCap: 65536}, Feat: "single block, multi-chunk"})
		// classic lzma, both sink kinds, all three termination modes
		for _, kind := range []string{"lzma", "lzma-bytesink"} {
			data = gen.Data(r, []string{"text", "lowent", "random"}[i%3], r.Range(1, 6000))
			lc := lzma.WriterConfig{DictCap: 4096, Matcher: lzma.MatchAlgorithm(i % 2)}
			switch i % 3 {
			case 1:
				lc.SizeInHeader, lc.Size = true, int64(len(data))
			case 2:
				lc.SizeInHeader, lc.Size, lc.EOSMarker = true, int64(len(data)), true
			}
			out = append(out, wcase{ID: fmt.Sprintf("%s%d", kind, i), Kind: kind, Data: data, Parts: gen.Partition(r, "random", len(data), nil), LZ: lc, Feat: fmt.Sprintf("%s mode%d", kind, i%3)})
		}
		// LZMA2 multi-chunk with flushes
		data = append(append(gen.Data(r, "text", r.Range(100, 3000)), gen.Data(r, "random", r.Pick(500, 70000))...), gen.Data(r, "text", 2000)...)
		parts := gen.Partition(r, "random", len(data), nil)
		fl := map[int]bool{}
		for j := range parts {
			if r.Chance(1, 3) {
				fl[j] = true
			}
		}
		out = append(out, wcase{ID: fmt.Sprintf("lzma2-%d", i), Kind: "lzma2", Data: data, Parts: parts, Flush: fl,
			L2: lzma.Writer2Config{DictCap: r.Pick(4096, 65536), Matcher: lzma.MatchAlgorithm(i % 2)}, Feat: "lzma2 with flushes"})
	}
	// a chunk that reaches the 2 MiB uncompressed limit, followed by more writes: a failure
	// while that chunk is flushed must not make the next Write panic
	big := make([]byte, 1<<21)
	big = append(big, gen.Data(r, "text", 3000)...)
	out = append(out, wcase{ID: "lzma2big", Kind: "lzma2", Data: big, Parts: []int{1 << 20, 1 << 20, 1000, 2000}, Flush: map[int]bool{2: true},
		L2: lzma.Writer2Config{DictCap: 65536}, Feat: "lzma2, chunk at the 2 MiB limit"})
	// several blocks, each large enough for several chunks: chunks are written in the middle of
	// Write calls, and Write calls (one for everything; pieces of 70000 bytes) cross block ends
	for i, bs := range []int64{100000, 150000} {
		d := append(gen.Data(r, "random", 230000), gen.Data(r, "text", 40000)...)
		parts := []int{len(d)}
		if i == 1 {
			parts = []int{70000, 70000, 70000, len(d) - 210000}
		}
		out = append(out, wcase{ID: fmt.Sprintf("xzblocks%d", i), Kind: "xz", Data: d, Parts: parts,
			XZ: xz.WriterConfig{DictCap: []int{4096, 65536}[i], BlockSize: bs, CheckSum: xz.CRC32}, Feat: fmt.Sprintf("xz, multi-chunk blocks of %d bytes, writes crossing block ends", bs)})
	}
	// more than a thousand blocks: the index written by Close is larger than any buffer a
	// writer might collect it in; fault positions: all sink calls of Close, a sample before
	// (binary tree matcher: its tables are small; the hash table matcher clears half a
	// megabyte per block)
	many := gen.Data(r, "random", 1100*128)
	out = append(out, wcase{ID: "xzmanyblocks", Kind: "xz", Data: many, Parts: []int{len(many)}, Tail: 1400,
		XZ: xz.WriterConfig{DictCap: 4096, BlockSize: 128, CheckSum: xz.CRC32, Matcher: lzma.BinaryTree}, Feat: "xz, 1100 blocks, index of more than 4 KiB"})
	out = append(out, wcase{ID: "xzbig2m", Kind: "xz", Data: big, Parts: []int{1<<21 - 5, 5, 3000}, XZ: xz.WriterConfig{DictCap: 65536}, Feat: "xz, chunk at the 2 MiB limit"})
	return out
}

// rcase is a valid stream read through a failing source.
type rcase struct {
	ID      string
	Format  string // xz, xz-single, lzma, lzma2
	B       []byte
	Content []byte
	Dict    int
	ByteSrc bool
}

func c09ReaderCases(c *ev.Ctx) []rcase {
	var out []rcase
	for _, s := range truncStreams(c) {
		if len(s.B) > 3500 || s.Format == "xz-multi" && len(out)%2 == 0 {
			continue
		}
		f := s.Format
		if f == "xz-multi" {
			f = "xz"
		}
		out = append(out, rcase{ID: s.ID, Format: f, B: s.B, Content: s.Content, Dict: s.Dict, ByteSrc: len(out)%2 == 1})
	}
	return out
}

func checkC09(c *ev.Ctx) {
	c.SetRule("fault = I/O failure at the boundary. Writers (xz multi-block and multi-chunk, .lzma with plain and io.ByteWriter sinks in three termination modes, LZMA2 with flushes): a dry run records the K sink Write calls of the history NewWriter, Write*, [Flush], Close, Close; then every k in [0,K) x {fail once, fail forever} x {no bytes, partial write, all bytes accepted and the error returned with the full count} is replayed (byte-writer sinks: every k < 3000, then every 61st). Readers (xz, xz SingleStream, .lzma, LZMA2; plain and io.ByteReader sources): every source offset k in [0,len] x {once, forever} x {error in its own Read result, error together with the last data bytes}. distinct non-trivial = distinct (case, fault position, fault mode) executions in which the fault actually fired")
	c.Assume("the injected error is mon.ErrInjected; reader oracle uses errors.Is; the driver stops at the first error like io.ReadAll")
	wcases := c09WriterCases(c)
	rcases := c09ReaderCases(c)
	type job struct {
		w        *wcase
		r        *rcase
		k        int
		forever  bool
		partial  bool
		full     bool // the failing sink call accepts all bytes and returns the error with the full count
		withData bool
		stdErr   bool // the source fails with io.ErrUnexpectedEOF itself (as a cut HTTP body does)
	}
	var jobs []job
	for i := range wcases {
		w := &wcases[i]
		dry := mon.NewSink()
		res := w.run(dry)
		if res.panic != nil || res.anyErr || w.validate(dry.Buf[:res.closeLen]) != nil {
			// the fault-free run must be clean, otherwise C01/C06/C08 territory
			c.Inconclusive(fmt.Sprintf("fault-free run of writer case %s is not clean: %v panic=%v", w.ID, res.calls[len(res.calls)-2:], res.panic != nil))
			continue
		}
		K := dry.Calls
		c.Count("writer_sink_calls_total", int64(K))
		for k := 0; k < K; k++ {
			if w.Tail > 0 {
				// all of the last 40 calls, every 23rd of the last Tail calls, every 97th before
				if !(k >= K-40 || (k >= K-w.Tail && k%23 == 0) || k%97 == 0) {
					continue
				}
			} else if k >= 3000 && k%61 != 0 {
				continue
			}
			for m := 0; m < 4; m++ {
				if w.Kind == "lzma-bytesink" && m >= 2 && k > 13 {
					continue // single-byte calls cannot be partial
				}
				jobs = append(jobs, job{w: w, k: k, forever: m&1 == 1, partial: m&2 == 2})
			}
			if w.Kind != "lzma-bytesink" {
				jobs = append(jobs, job{w: w, k: k, full: true}, job{w: w, k: k, full: true, forever: true})
			}
		}
	}
	for i := range rcases {
		r := &rcases[i]
		for k := 0; k <= len(r.B); k++ {
			jobs = append(jobs, job{r: r, k: k, forever: false}, job{r: r, k: k, forever: true}, job{r: r, k: k, forever: true, stdErr: true})
			if k > 0 && k < len(r.B) {
				// the error arrives together with the last bytes before the fault offset and
				// persists.  (A transient error delivered together with valid data is dropped
				// by io.ReadFull itself when those bytes complete the request, and the stream
				// then decodes correctly: not a masked failure, so it is not generated.)
				jobs = append(jobs, job{r: r, k: k, forever: true, withData: true})
			}
		}
	}
	c.MinEvals(int64(len(jobs) / 2))
	c.Set("writer_cases", len(wcases))
	c.Set("reader_cases", len(rcases))
	c.Exhaustive(true)
	c.Set("exhaustive_part", "fault positions per case (all sink calls / all source offsets, except byte-writer sinks beyond call 3000 which are thinned to every 61st and the 1100-block case where the last 40 calls, every 23rd call of Close and every 97th earlier call are taken); the case list is a sample")
	par(len(jobs), func(i int) {
		j := jobs[i]
		if j.w != nil {
			w := j.w
			id := fmt.Sprintf("%s@%d:%v:%v", w.ID, j.k, j.forever, j.partial)
			if j.full {
				id += ":full"
			}
			noteCase(id)
			if !want(c, id) {
				return
			}
			sink := mon.NewSink()
			sink.FailAt, sink.Forever, sink.Partial, sink.Full = j.k, j.forever, j.partial, j.full
			res := w.run(sink)
			det := map[string]any{"case_id": id, "kind": w.Kind, "features": w.Feat, "fail_at_call": j.k, "forever": j.forever, "partial": j.partial, "all_bytes_accepted_with_the_error": j.full,
				"calls": tail(res.calls, 12), "fault_hits": sink.Hit, "input_len": len(w.Data), "sink_len": len(sink.Buf)}
			if sink.Hit == 0 {
				c.Count("writer_fault_not_reached", 1)
				return
			}
			c.Eval(id, true)
			c.Count("writer_faulted_runs", 1)
			switch {
			case res.panic != nil:
				det["what"] = fmt.Sprintf("%s writer panicked after a sink failure at call %d: %s", w.Kind, j.k, res.panic.Value)
				det["stack"] = res.panic.Stack
				c.Violation("writer-panic-after-fault:"+w.Kind+":"+firstLine(res.panic.Value), det)
			case res.allNil:
				verr := w.validate(sink.Buf[:res.closeLen])
				det["what"] = fmt.Sprintf("sink Write call %d failed (forever=%v partial=%v) but every call of the %s writer returned nil; sink content valid: %v", j.k, j.forever, j.partial, w.Kind, verr == nil)
				c.Violation("sink-error-masked:"+w.Kind, det)
			}
			return
		}
		r := j.r
		id := fmt.Sprintf("%s@%d:%v:%v", r.ID, j.k, j.forever, j.withData)
		if j.stdErr {
			id += ":unexpectedEOF"
		}
		noteCase(id)
		if !want(c, id) {
			return
		}
		src := mon.NewSource(r.B)
		src.FailAt, src.Forever, src.WithData = j.k, j.forever, j.withData
		injected := mon.ErrInjected
		if j.stdErr {
			// an error value the library also produces itself: it must still not become a
			// clean end of stream
			injected = io.ErrUnexpectedEOF
			src.Err = injected
		}
		var rd io.Reader = src
		if r.ByteSrc {
			rd = mon.ByteSource{Source: src}
		}
		var out []byte
		var cerr, rerr error
		pn := mon.Guard(func() {
			var lr io.Reader
			switch r.Format {
			case "xz":
				lr, cerr = xz.ReaderConfig{DictCap: 4096}.NewReader(rd)
			case "xz-single":
				lr, cerr = xz.ReaderConfig{DictCap: 4096, SingleStream: true}.NewReader(rd)
			case "lzma":
				lr, cerr = lzma.ReaderConfig{DictCap: 4096}.NewReader(rd)
			case "lzma2":
				lr, cerr = lzma.Reader2Config{DictCap: r.Dict}.NewReader2(rd)
			}
			if cerr != nil {
				return
			}
			out, rerr = io.ReadAll(lr)
		})
		if src.Hit == 0 && pn == nil {
			c.Count("reader_fault_not_reached", 1)
			return
		}
		c.Eval(id, true)
		c.Count("reader_faulted_runs", 1)
		det := map[string]any{"case_id": id, "format": r.Format, "bytereader_source": r.ByteSrc, "fail_at_offset": j.k, "forever": j.forever, "stream_len": len(r.B),
			"ctor_error": fmt.Sprint(cerr), "read_error": fmt.Sprint(rerr), "delivered": len(out), "stream_hex": ev.Hex(r.B, 800)}
		e := cerr
		if e == nil {
			e = rerr
		}
		switch {
		case pn != nil:
			det["what"] = "reader panicked under a failing source: " + pn.Value
			c.Violation("reader-panic-after-fault:"+r.Format, det)
		case e == nil:
			det["what"] = fmt.Sprintf("source failed at offset %d but the %s reader reported a clean end after %d bytes", j.k, r.Format, len(out))
			c.Violation("source-error-masked-clean-eof:"+r.Format, det)
		case !errors.Is(e, injected):
			det["what"] = fmt.Sprintf("source failed at offset %d with the injected error; the %s reader returned %q instead (neither it nor a wrapper of it)", j.k, r.Format, e)
			c.Violation("source-error-replaced:"+r.Format, det)
		case len(out) > len(r.Content) || !bytes.Equal(out, r.Content[:len(out)]):
			det["what"] = "bytes delivered before the error are not a prefix of the content"
			c.Violation("source-error-wrong-bytes:"+r.Format, det)
		}
		if i%9973 == 0 {
			c.Sample(map[string]any{"reader": r.Format, "stream": r.ID, "fail_at_offset": j.k, "forever": j.forever, "error_returned": fmt.Sprint(e)})
		}
	})
	c.Sample(map[string]any{"writer_history_example": func() any {
		if len(wcases) == 0 {
			return nil
		}
		d := mon.NewSink()
		return tail(wcases[0].run(d).calls, 8)
	}()})
}

func tail(s []string, n int) []string {
	if len(s) > n {
		return s[len(s)-n:]
	}
	return s
}
