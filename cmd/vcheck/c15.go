package main

import (
	"bytes"
	"fmt"
	"os"
	"os/exec"
	"path/filepath"
	"strings"
	"syscall"
	"time"

	"verif/internal/ev"
	"verif/internal/gen"
	"verif/internal/lzc"
	"verif/internal/prng"
	"verif/internal/ref"
)

func init() { register("C15", "exploration", checkC15) }

type cliMember struct {
	Name         string
	Kind         string // plain, xz, lzma, missing, dir, corrupt-xz, corrupt-lzma
	Bytes        []byte // file content (compressed for xz/lzma kinds)
	Plain        []byte
	Mode         os.FileMode
	Foreign      bool // compressed member written by xz-utils
	TargetExists bool
}

type cliInv struct {
	ID                          string
	Decomp, Keep, Stdout, Force bool
	Format                      string // "", xz, lzma, alone, auto
	Preset                      int    // -1 none
	Quiet, Verbose              int
	UseZ                        bool
	Members                     []cliMember
	Argv                        []string
	Stdin                       []byte // non-nil: no file arguments
}

// fileExpect describes the expected state of one path after the run.
type fileExpect struct {
	Kind      string // "absent", "bytes", "decodes"
	Bytes     []byte
	Fmt       string
	Plain     []byte
	MaxMode   os.FileMode
	CheckMode bool
}

func decodesTo(fmtName string, b, plain []byte) bool {
	if fmtName == "xz" {
		o, _, err := ref.DecodeXZ(b, 0)
		return err == nil && bytes.Equal(o, plain)
	}
	o, info, err := ref.DecodeAlone(b, 0)
	return err == nil && bytes.Equal(o, plain) && info.Consumed == len(b)
}

func xzcli() string {
	p, err := exec.LookPath("xz")
	if err != nil {
		return ""
	}
	return p
}

func xzEncode(format string, p []byte, r *prng.R) []byte {
	x := xzcli()
	if x == "" {
		return nil
	}
	args := []string{"-c", fmt.Sprintf("-%d", r.Intn(7))}
	if format == "lzma" {
		args = append(args, "--format=lzma")
	} else {
		if r.Bool() {
			args = append(args, "--check="+[]string{"crc32", "crc64", "sha256", "none"}[r.Intn(4)])
		}
		if r.Bool() {
			// several blocks per stream (xz -T and --block-size write such files)
			args = append(args, fmt.Sprintf("--block-size=%d", r.Pick(500, 4096, 20000, 1<<20)))
			if r.Bool() {
				args = append(args, "-T2")
			}
		}
	}
	cmd := exec.Command(x, args...)
	cmd.Stdin = bytes.NewReader(p)
	out, err := cmd.Output()
	if err != nil {
		return nil
	}
	return out
}

// genInv draws one invocation and builds its argv.
func genInv(r *prng.R, i int) cliInv {
	inv := cliInv{ID: fmt.Sprintf("i%d", i), Preset: -1}
	inv.Decomp = r.Chance(2, 5)
	inv.Keep = r.Chance(1, 3)
	inv.Stdout = r.Chance(1, 5)
	inv.Force = r.Chance(1, 4)
	inv.Format = []string{"", "", "xz", "lzma", "alone", "auto"}[r.Intn(6)]
	if r.Chance(1, 2) {
		inv.Preset = r.Intn(7)
		if i%40 == 0 {
			inv.Preset = 7 + r.Intn(3)
		}
	}
	inv.Quiet, inv.Verbose = r.Pick(0, 0, 0, 1, 2), r.Pick(0, 0, 1)
	inv.UseZ = !inv.Decomp && r.Chance(1, 25)
	effFmt := inv.Format
	if effFmt == "" || effFmt == "auto" {
		effFmt = "xz"
	}
	if effFmt == "alone" {
		effFmt = "lzma"
	}
	n := r.Pick(1, 1, 1, 2, 3, 4)
	used := map[string]bool{}
	for m := 0; m < n; m++ {
		var mb cliMember
		base := []string{"a", "b.txt", "my file", "data.dat", "-dash", "c.tar", "weird name.txt", "x.y.z"}[r.Intn(8)]
		base = fmt.Sprintf("%s%d", base, m)
		mb.Mode = os.FileMode(r.Pick(0o644, 0o600, 0o640, 0o666, 0o755, 0o444))
		mb.Plain = gen.Data(r, []string{"text", "random", "lowent", "zeros", "empty"}[r.Intn(5)], r.Pick(0, 1, 10, 500, 5000, 40000))
		if r.Chance(1, 10) {
			// compressible, then more than a chunk of incompressible bytes, then compressible again
			mb.Plain = gen.Data(r, []string{"sandwich", "sandwich2", "altseg"}[r.Intn(3)], r.Pick(200000, 290000))
		}
		if !inv.Decomp {
			mb.Kind = "plain"
			mb.Name = base
			switch r.Intn(12) {
			case 0:
				mb.Kind = "missing"
			case 1:
				mb.Kind = "dir"
			case 2:
				mb.Name = base + "." + effFmt // already suffixed
			case 3:
				mb.Name = base + map[string]string{"xz": ".txz", "lzma": ".tlz"}[effFmt]
			case 4:
				mb.TargetExists = true
			}
			mb.Bytes = mb.Plain
		} else {
			f := []string{"xz", "lzma"}[r.Intn(2)]
			if inv.Format == "xz" || inv.Format == "lzma" || inv.Format == "alone" {
				if r.Chance(4, 5) {
					f = effFmt
				}
			}
			mb.Kind = f
			suffix := "." + f
			if r.Chance(1, 5) {
				suffix = map[string]string{"xz": ".txz", "lzma": ".tlz"}[f]
			}
			mb.Name = base + suffix
			if r.Chance(1, 3) {
				if r.Chance(1, 3) {
					// content for which xz-utils emits compressed, uncompressed and again compressed
					// chunks inside one block (the last with a state reset but no new properties)
					mb.Plain = gen.Data(r, []string{"sandwich", "sandwich2", "altseg"}[r.Intn(3)], r.Pick(200000, 290000))
				}
				if b := xzEncode(f, mb.Plain, r); b != nil {
					mb.Bytes, mb.Foreign = b, true
				}
			}
			if mb.Bytes == nil {
				mb.Bytes = compressWith(f, mb.Plain)
			}
			switch r.Intn(12) {
			case 0:
				mb.Kind = "missing"
			case 1:
				mb.Kind = "dir"
			case 2:
				// damage that is certain to be detected: a flipped payload byte under a CRC64
				// (.xz written by the library), a truncation for .lzma (which has no check)
				mb.Foreign = false
				mb.Bytes = compressWith(f, mb.Plain)
				if f == "xz" && len(mb.Bytes) > 60 {
					mb.Bytes[len(mb.Bytes)/2] ^= 0x41
					mb.Kind = "corrupt-" + f
				} else if f == "lzma" && len(mb.Bytes) > 30 {
					mb.Bytes = mb.Bytes[:len(mb.Bytes)-7]
					mb.Kind = "corrupt-" + f
				}
			case 3:
				mb.Name = base + ".bin" // unknown suffix
			case 4:
				mb.TargetExists = true
			}
		}
		if used[mb.Name] {
			continue
		}
		used[mb.Name] = true
		inv.Members = append(inv.Members, mb)
	}
	// argv: flags in random order/forms, possibly bundled, files after "--" when needed
	var flags []string
	short := ""
	addf := func(on bool, s, l string) {
		if !on {
			return
		}
		switch r.Intn(3) {
		case 0:
			short += s
		case 1:
			flags = append(flags, "-"+s)
		default:
			flags = append(flags, "--"+l)
		}
	}
	addf(inv.Decomp, "d", "decompress")
	addf(inv.Keep, "k", "keep")
	addf(inv.Stdout, "c", "stdout")
	addf(inv.Force, "f", "force")
	for q := 0; q < inv.Quiet; q++ {
		addf(true, "q", "quiet")
	}
	for q := 0; q < inv.Verbose; q++ {
		addf(true, "v", "verbose")
	}
	if short != "" {
		flags = append(flags, "-"+short)
	}
	if inv.Format != "" {
		switch r.Intn(3) {
		case 0:
			flags = append(flags, "-F", inv.Format)
		case 1:
			flags = append(flags, "--format="+inv.Format)
		default:
			flags = append(flags, "--format", inv.Format)
		}
	}
	if inv.Preset >= 0 {
		flags = append(flags, fmt.Sprintf("-%d", inv.Preset))
	}
	if inv.UseZ {
		flags = append(flags, "-z")
	}
	// shuffle flag groups (keeping "-F x" / "--format x" pairs together)
	var groups [][]string
	for k := 0; k < len(flags); k++ {
		if (flags[k] == "-F" || flags[k] == "--format") && k+1 < len(flags) {
			groups = append(groups, []string{flags[k], flags[k+1]})
			k++
		} else {
			groups = append(groups, []string{flags[k]})
		}
	}
	for k := len(groups) - 1; k > 0; k-- {
		j := r.Intn(k + 1)
		groups[k], groups[j] = groups[j], groups[k]
	}
	needDD := false
	for _, m := range inv.Members {
		if strings.HasPrefix(m.Name, "-") {
			needDD = true
		}
	}
	var files []string
	for _, m := range inv.Members {
		files = append(files, m.Name)
	}
	var argv []string
	if needDD || r.Chance(1, 4) {
		for _, g := range groups {
			argv = append(argv, g...)
		}
		argv = append(argv, "--")
		argv = append(argv, files...)
	} else {
		// flags may also follow file names
		split := r.Intn(len(groups) + 1)
		for _, g := range groups[:split] {
			argv = append(argv, g...)
		}
		argv = append(argv, files...)
		for _, g := range groups[split:] {
			argv = append(argv, g...)
		}
	}
	inv.Argv = argv
	return inv
}

// predict is the executable model of the documented command-line semantics.
func predict(inv cliInv) (expect map[string]fileExpect, stdout [][]byte, stdoutFmt string, anyFail bool, lenientStdout bool) {
	expect = map[string]fileExpect{}
	cfmt := inv.Format
	if cfmt == "" || cfmt == "auto" {
		cfmt = "xz"
	}
	if cfmt == "alone" {
		cfmt = "lzma"
	}
	stdoutFmt = cfmt
	for _, m := range inv.Members {
		unchanged := func() {
			switch m.Kind {
			case "missing":
				expect[m.Name] = fileExpect{Kind: "absent"}
			case "dir":
			default:
				expect[m.Name] = fileExpect{Kind: "bytes", Bytes: m.Bytes}
			}
		}
		if m.TargetExists {
			if t := inv.targetOf(m); t != "" {
				expect[t] = fileExpect{Kind: "bytes", Bytes: []byte("EXISTING")} // overwritten below when the member succeeds
			}
		}
		if m.Kind == "missing" || m.Kind == "dir" {
			anyFail = true
			unchanged()
			continue
		}
		if !inv.Decomp {
			ext, tarExt := "."+cfmt, map[string]string{"xz": ".txz", "lzma": ".tlz"}[cfmt]
			target := m.Name + ext
			if inv.Stdout {
				stdout = append(stdout, m.Plain)
				unchanged()
				continue
			}
			if hasSuffixAny(m.Name, ext, tarExt) {
				anyFail = true
				unchanged()
				continue
			}
			if m.TargetExists && !inv.Force {
				anyFail = true
				unchanged()
				expect[target] = fileExpect{Kind: "bytes", Bytes: []byte("EXISTING")}
				continue
			}
			expect[target] = fileExpect{Kind: "decodes", Fmt: cfmt, Plain: m.Plain, MaxMode: m.Mode, CheckMode: true}
			if inv.Keep {
				unchanged()
			} else {
				expect[m.Name] = fileExpect{Kind: "absent"}
			}
			continue
		}
		// decompression
		content := strings.TrimPrefix(m.Kind, "corrupt-")
		corrupt := strings.HasPrefix(m.Kind, "corrupt-")
		df := content // detected format
		formatOK := true
		switch inv.Format {
		case "xz", "lzma", "alone":
			if cfmt != content {
				formatOK = false
			}
			df = cfmt
		}
		if !formatOK {
			anyFail = true
			unchanged()
			continue
		}
		ext, tarExt := "."+df, map[string]string{"xz": ".txz", "lzma": ".tlz"}[df]
		if inv.Stdout {
			if corrupt {
				anyFail = true
				lenientStdout = true
			} else if !lenientStdout {
				// (after a corrupt member nothing more is predicted: gxz may already have
				// written any part of that member's decoded bytes when it notices the damage)
				stdout = append(stdout, m.Plain)
			}
			unchanged()
			continue
		}
		var target string
		switch {
		case strings.HasSuffix(m.Name, ext):
			target = strings.TrimSuffix(m.Name, ext)
		case strings.HasSuffix(m.Name, tarExt):
			target = strings.TrimSuffix(m.Name, tarExt) + ".tar"
		}
		if target == "" {
			anyFail = true
			unchanged()
			continue
		}
		if m.TargetExists && !inv.Force {
			anyFail = true
			unchanged()
			expect[target] = fileExpect{Kind: "bytes", Bytes: []byte("EXISTING")}
			continue
		}
		if corrupt {
			anyFail = true
			unchanged()
			if m.TargetExists {
				expect[target] = fileExpect{Kind: "bytes", Bytes: []byte("EXISTING")}
			} else {
				expect[target] = fileExpect{Kind: "absent"}
			}
			continue
		}
		expect[target] = fileExpect{Kind: "bytes", Bytes: m.Plain, MaxMode: m.Mode, CheckMode: true}
		if inv.Keep {
			unchanged()
		} else {
			expect[m.Name] = fileExpect{Kind: "absent"}
		}
	}
	return
}

func (inv cliInv) targetOf(m cliMember) string {
	cfmt := inv.Format
	if cfmt == "" || cfmt == "auto" {
		cfmt = "xz"
	}
	if cfmt == "alone" {
		cfmt = "lzma"
	}
	if !inv.Decomp {
		return m.Name + "." + cfmt
	}
	f := strings.TrimPrefix(m.Kind, "corrupt-")
	ext, tarExt := "."+f, map[string]string{"xz": ".txz", "lzma": ".tlz"}[f]
	switch {
	case strings.HasSuffix(m.Name, ext):
		return strings.TrimSuffix(m.Name, ext)
	case strings.HasSuffix(m.Name, tarExt):
		return strings.TrimSuffix(m.Name, tarExt) + ".tar"
	}
	return ""
}

func checkC15(c *ev.Ctx) {
	c.SetRule("generated gxz invocations, each in a fresh directory: flag sets over {-d,-k,-c,-f,-F xz|lzma|alone|auto,-0..-9,-q,-v,-z} in short, bundled and long forms and random order (also after file names, or before '--'), 1..4 members per run (names with spaces, leading dashes, known/tar/unknown suffixes; plain files, library- and xz-utils-written .xz/.lzma files; failing members: missing, directory, already suffixed, corrupt, existing target), stdin->stdout runs; an executable model of the documented semantics predicts exit status, stdout and the resulting tree (compressed results judged by decoding). Plus round trips gxz f; gxz -d for presets 0-9 x both formats with permission check, and interop with the xz command. distinct non-trivial = distinct (flag set | format | member kinds | outcome) tuples")
	c.Assume("behaviour the statement does not define is modelled leniently: '-z' may be a side-effect-free usage error; stdout content of a -c run with a failing member is only required to start with the output of the members before it", "xz-utils CLI "+xzcli()+" and liblzma when present")
	if gxzBinary() == "" {
		c.Inconclusive("gxz binary not built (VERIF_GXZ unset)")
		return
	}
	if !stdoutDevOK() {
		c.Inconclusive("/dev/stdout missing before the run")
		return
	}
	old := syscall.Umask(0)
	defer syscall.Umask(old)
	base := filepath.Join(c.WorkDir, "c15", fmt.Sprintf("%s-%d-%d", c.Tier, c.Seed, os.Getpid()))
	os.RemoveAll(base)
	os.MkdirAll(base, 0o755)
	defer os.RemoveAll(base)
	n := 1200
	if thorough(c) {
		n = 20000
	}
	c.MinEvals(int64(n / 2))
	c.Set("xz_cli", xzcli())
	par(n, func(i int) {
		id := fmt.Sprintf("i%d", i)
		noteCase(id)
		if !want(c, id) {
			return
		}
		r := prng.New(c.Seed, 15, uint64(i))
		inv := genInv(r, i)
		if len(inv.Members) == 0 {
			return
		}
		dir := filepath.Join(base, id)
		os.MkdirAll(dir, 0o755)
		for _, m := range inv.Members {
			p := filepath.Join(dir, m.Name)
			switch m.Kind {
			case "missing":
			case "dir":
				os.Mkdir(p, 0o755)
			default:
				os.WriteFile(p, m.Bytes, 0o600)
				os.Chmod(p, m.Mode)
			}
			if m.TargetExists {
				if t := inv.targetOf(m); t != "" {
					os.WriteFile(filepath.Join(dir, t), []byte("EXISTING"), 0o600)
				}
			}
		}
		res := runGxz(c, dir, inv.Argv, inject{}, false, nil)
		snap := dirSnapshot(dir)
		modes := map[string]os.FileMode{}
		for nme := range snap {
			if fi, err := os.Stat(filepath.Join(dir, nme)); err == nil {
				modes[nme] = fi.Mode().Perm()
			}
		}
		os.RemoveAll(dir)
		if res.RunErr != "" || res.Exit < 0 {
			c.Inconclusive(fmt.Sprintf("invocation %s could not be run: %s", id, res.RunErr))
			return
		}
		expect, wantOut, outFmt, anyFail, lenientOut := predict(inv)
		var kinds []string
		for _, m := range inv.Members {
			kinds = append(kinds, m.Kind)
		}
		det := map[string]any{"case_id": id, "argv": inv.Argv, "members": kinds, "exit": res.Exit, "stderr": clipStr(res.Stderr, 500), "directory_after": snapNames(snap), "stdout_len": len(res.Stdout)}
		cls := fmt.Sprintf("d%v k%v c%v f%v F%s|%v|fail%v", inv.Decomp, inv.Keep, inv.Stdout, inv.Force, inv.Format, kinds, anyFail)
		c.Eval(cls, true)
		viol := func(sig, what string) {
			det["what"] = what
			c.Violation(sig, det)
		}
		if inv.UseZ && res.Exit != 0 {
			// lenient: usage error without side effects
			for _, m := range inv.Members {
				if m.Kind == "missing" || m.Kind == "dir" {
					continue
				}
				if b, ok := snap[m.Name]; !ok || !bytes.Equal(b, m.Bytes) {
					viol("usage-error-with-side-effects", fmt.Sprintf("-z is rejected (exit %d) but %q was touched", res.Exit, m.Name))
				}
			}
			c.Count("z_flag_usage_errors", 1)
			return
		}
		if (res.Exit != 0) != anyFail {
			viol("exit-status", fmt.Sprintf("exit status %d, but the model says some member fails = %v", res.Exit, anyFail))
		}
		for name, e := range expect {
			b, ok := snap[name]
			switch e.Kind {
			case "absent":
				if ok {
					viol("file-should-be-absent", fmt.Sprintf("%q exists after the run (%d bytes)", name, len(b)))
				}
			case "bytes":
				if !ok || !bytes.Equal(b, e.Bytes) {
					viol("file-content", fmt.Sprintf("%q: present=%v, %d bytes; want exactly the expected %d bytes", name, ok, len(b), len(e.Bytes)))
				}
			case "decodes":
				if !ok || !decodesTo(e.Fmt, b, e.Plain) {
					viol("compressed-output-invalid", fmt.Sprintf("%q: present=%v, does not decode (%s, reference decoder) to the %d input bytes", name, ok, e.Fmt, len(e.Plain)))
				} else if lzc.Available() && i%3 == 0 {
					var lr lzc.Result
					if e.Fmt == "xz" {
						lr = lzc.DecodeXZ(b, false, 0)
					} else {
						lr = lzc.DecodeAlone(b, 0)
					}
					if !lr.OK() || !bytes.Equal(lr.Out, e.Plain) {
						viol("compressed-output-rejected-by-liblzma", fmt.Sprintf("%q rejected by liblzma: %v", name, lr.Err()))
					}
					c.Count("outputs_checked_with_liblzma", 1)
				}
			}
			if e.CheckMode && ok {
				if md := modes[name]; md&^e.MaxMode.Perm() != 0 {
					viol("permission-bits-granted", fmt.Sprintf("%q has mode %o, the input had %o", name, md, e.MaxMode.Perm()))
				}
			}
		}
		for name := range snap {
			if _, ok := expect[name]; !ok && !strings.HasSuffix(name, "/") {
				viol("unexpected-file", fmt.Sprintf("unexpected file %q after the run", name))
			}
		}
		if inv.Stdout {
			// concatenation of the members' results
			rest := res.Stdout
			if inv.Decomp {
				var all []byte
				for _, w := range wantOut {
					all = append(all, w...)
				}
				if lenientOut {
					// all = the output of the members before the first corrupt one
					if !bytes.HasPrefix(rest, all) {
						viol("stdout-content", fmt.Sprintf("standard output of -dc run (%d bytes) does not start with the %d bytes of the members before the corrupt one", len(rest), len(all)))
					}
				} else if !bytes.Equal(rest, all) {
					viol("stdout-content", fmt.Sprintf("standard output holds %d bytes, want %d (first difference %d)", len(rest), len(all), firstDiff(rest, all)))
				}
			} else {
				var all []byte
				for _, w := range wantOut {
					all = append(all, w...)
				}
				var got []byte
				var err error
				if outFmt == "xz" {
					got, _, err = ref.DecodeXZ(rest, 0)
					if len(wantOut) == 0 && len(rest) == 0 {
						err = nil
					}
				} else if len(wantOut) == 1 {
					got, _, err = ref.DecodeAlone(rest, 0)
				} else {
					// concatenated .lzma streams: decode one after the other
					p := rest
					for len(p) > 0 && err == nil {
						var o []byte
						var info ref.AloneInfo
						o, info, err = ref.DecodeAlone(p, 0)
						got = append(got, o...)
						if info.Consumed == 0 {
							break
						}
						p = p[info.Consumed:]
					}
				}
				if err != nil || !bytes.Equal(got, all) {
					viol("stdout-content", fmt.Sprintf("standard output of -c run (%d bytes, %s) does not decode to the concatenated inputs (%d bytes): %v", len(rest), outFmt, len(all), err))
				}
			}
		} else if len(res.Stdout) != 0 {
			viol("stdout-not-empty", fmt.Sprintf("%d bytes on standard output without -c", len(res.Stdout)))
		}
		if i%61 == 0 {
			c.Sample(map[string]any{"argv": inv.Argv, "members": kinds, "exit": res.Exit, "directory_after": snapNames(snap), "syscalls": len(res.Events)})
		}
	})
	c15Stale(c, base)
	c15Related(c, base)
	gxzManyArgs(c, base)
	c15Contents(c, base)
	c15Fifo(c, base)
	// round trips for all presets and both formats, with interop
	type rt struct {
		f string
		p int
	}
	var rts []rt
	for _, f := range []string{"xz", "lzma"} {
		for p := 0; p <= 9; p++ {
			rts = append(rts, rt{f, p})
		}
	}
	run := func(k int) {
		t := rts[k]
		id := fmt.Sprintf("rt-%s-%d", t.f, t.p)
		noteCase(id)
		if !want(c, id) {
			return
		}
		r := prng.New(c.Seed, 151, uint64(k))
		dir := filepath.Join(base, id)
		os.MkdirAll(dir, 0o755)
		name := []string{"file.txt", "my data", "archive.tar"}[k%3]
		data := gen.Data(r, []string{"text", "altseg", "lowent"}[k%3], r.Range(1000, 60000))
		mode := os.FileMode([]int{0o644, 0o600, 0o400, 0o755, 0o666}[k%5])
		p := filepath.Join(dir, name)
		os.WriteFile(p, data, 0o600)
		os.Chmod(p, mode)
		det := map[string]any{"case_id": id, "format": t.f, "preset": t.p, "name": name, "mode": fmt.Sprintf("%o", mode)}
		viol := func(sig, what string) {
			det["what"] = what
			c.Violation(sig, det)
		}
		r1 := runGxz(c, dir, []string{"-F", t.f, fmt.Sprintf("-%d", t.p), name}, inject{}, false, nil)
		comp := filepath.Join(dir, name+"."+t.f)
		cb, err := os.ReadFile(comp)
		c.Eval(id, true)
		if r1.Exit != 0 || err != nil {
			viol("roundtrip-compress", fmt.Sprintf("gxz -F %s -%d: exit %d, output present=%v: %s", t.f, t.p, r1.Exit, err == nil, clipStr(r1.Stderr, 200)))
			os.RemoveAll(dir)
			return
		}
		if fi, err := os.Stat(comp); err == nil && fi.Mode().Perm()&^mode.Perm() != 0 {
			viol("permission-bits-granted", fmt.Sprintf("compressed file has mode %o, input had %o", fi.Mode().Perm(), mode.Perm()))
		}
		if _, err := os.Stat(p); err == nil {
			viol("roundtrip-input-kept", "input still present after plain compression")
		}
		if x := xzcli(); x != "" {
			args := []string{"-dc"}
			if t.f == "lzma" {
				args = append(args, "--format=lzma")
			}
			o, err := exec.Command(x, append(args, comp)...).Output()
			if err != nil || !bytes.Equal(o, data) {
				viol("xz-utils-rejects-gxz-output", fmt.Sprintf("xz %v on gxz output: %v, %d bytes", args, err, len(o)))
			}
			c.Count("interop_xz_reads_gxz", 1)
		}
		_ = cb
		r2 := runGxz(c, dir, []string{"-d", name + "." + t.f}, inject{}, false, nil)
		back, err := os.ReadFile(p)
		if r2.Exit != 0 || err != nil || !bytes.Equal(back, data) {
			viol("roundtrip-restore", fmt.Sprintf("gxz -d: exit %d, restored=%v equal=%v: %s", r2.Exit, err == nil, bytes.Equal(back, data), clipStr(r2.Stderr, 200)))
		}
		if fi, err := os.Stat(p); err == nil && fi.Mode().Perm()&^mode.Perm() != 0 {
			viol("permission-bits-granted", fmt.Sprintf("restored file has mode %o, input had %o", fi.Mode().Perm(), mode.Perm()))
		}
		// xz-utils output read by gxz, format detected from content
		if b := xzEncode(t.f, data, r); b != nil {
			q := filepath.Join(dir, "foreign."+t.f)
			os.WriteFile(q, b, 0o644)
			r3 := runGxz(c, dir, []string{"-d", "foreign." + t.f}, inject{}, false, nil)
			o, err := os.ReadFile(filepath.Join(dir, "foreign"))
			if r3.Exit != 0 || err != nil || !bytes.Equal(o, data) {
				viol("gxz-rejects-xz-utils-output", fmt.Sprintf("gxz -d on xz-utils %s output: exit %d: %s", t.f, r3.Exit, clipStr(r3.Stderr, 200)))
			}
			c.Count("interop_gxz_reads_xz", 1)
		}
		c.Count("roundtrips", 1)
		os.RemoveAll(dir)
	}
	// presets 0-6 in parallel, 7-9 one at a time (dictionaries of 16-64 MiB)
	var small, large []int
	for k, t := range rts {
		if t.p <= 6 {
			small = append(small, k)
		} else {
			large = append(large, k)
		}
	}
	par(len(small), func(i int) { run(small[i]) })
	for _, k := range large {
		run(k)
	}
	// mixed-format multi-file decompression with detection per file
	if want(c, "mixed") {
		dir := filepath.Join(base, "mixed")
		os.MkdirAll(dir, 0o755)
		r := prng.New(c.Seed, 152)
		d1, d2, d3 := gen.Data(r, "text", 2000), gen.Data(r, "lowent", 3000), gen.Data(r, "text", 100)
		os.WriteFile(filepath.Join(dir, "a.xz"), compressWith("xz", d1), 0o644)
		os.WriteFile(filepath.Join(dir, "b.lzma"), compressWith("lzma", d2), 0o644)
		os.WriteFile(filepath.Join(dir, "c.xz"), compressWith("xz", d3), 0o644)
		res := runGxz(c, dir, []string{"-d", "a.xz", "b.lzma", "c.xz"}, inject{}, false, nil)
		snap := dirSnapshot(dir)
		c.Eval("mixed", true)
		if res.Exit != 0 || !bytes.Equal(snap["a"], d1) || !bytes.Equal(snap["b"], d2) || !bytes.Equal(snap["c"], d3) {
			c.Violation("independent-files", map[string]any{"case_id": "mixed", "what": fmt.Sprintf("gxz -d a.xz b.lzma c.xz: exit %d, directory %v, stderr %s", res.Exit, snapNames(snap), clipStr(res.Stderr, 200))})
		}
		os.RemoveAll(dir)
	}
	// stdin -> stdout
	for k, f := range []string{"xz", "lzma"} {
		id := "stdin-" + f
		noteCase(id)
		if !want(c, id) {
			continue
		}
		dir := filepath.Join(base, id)
		os.MkdirAll(dir, 0o755)
		r := prng.New(c.Seed, 153, uint64(k))
		data := gen.Data(r, "text", 5000)
		r1 := runGxz(c, dir, []string{"-F", f, "-1"}, inject{}, false, data)
		c.Eval(id, true)
		if r1.Exit != 0 || !decodesTo(f, r1.Stdout, data) {
			c.Violation("stdin-stdout", map[string]any{"case_id": id, "what": fmt.Sprintf("gxz -F %s < data: exit %d, stdout %d bytes does not decode to the input: %s", f, r1.Exit, len(r1.Stdout), clipStr(r1.Stderr, 200))})
		}
		r2 := runGxz(c, dir, []string{"-d"}, inject{}, false, r1.Stdout)
		if r2.Exit != 0 || !bytes.Equal(r2.Stdout, data) {
			c.Violation("stdin-stdout", map[string]any{"case_id": id, "what": fmt.Sprintf("gxz -d < compressed: exit %d, %d bytes: %s", r2.Exit, len(r2.Stdout), clipStr(r2.Stderr, 200))})
		}
		if len(dirSnapshot(dir)) != 0 {
			c.Violation("stdin-stdout", map[string]any{"case_id": id, "what": "stdin/stdout run created files"})
		}
		os.RemoveAll(dir)
	}
	if !stdoutDevOK() {
		c.Inconclusive("/dev/stdout disappeared during the run (harness safety rule violated)")
	}
}

// c15Stale runs gxz in directories that already hold a file with the name gxz uses for its
// temporary output (<target>.compress / .decompress: left by a killed run, or simply a file of
// that name, possibly itself one of the files to process).  The statement does not say whether
// such a run must succeed; whatever it does, it must not grant permission bits the input
// lacked, must not destroy the content of any file it was not told to replace, and must report
// failure exactly when the target was not produced.
func c15Stale(c *ev.Ctx, base string) {
	type sc struct {
		dec, force, member bool
		f                  string
		inMode, staleMode  os.FileMode
	}
	var scs []sc
	for _, dec := range []bool{false, true} {
		for _, f := range []string{"xz", "lzma"} {
			for _, force := range []bool{false, true} {
				for _, member := range []bool{false, true} {
					scs = append(scs, sc{dec, force, member, f, 0o600, 0o666}, sc{dec, force, member, f, 0o400, 0o644})
				}
			}
		}
	}
	par(len(scs), func(i int) {
		s := scs[i]
		id := fmt.Sprintf("stale%d", i)
		noteCase(id)
		if !want(c, id) {
			return
		}
		r := prng.New(c.Seed, 152, uint64(i))
		dir := filepath.Join(base, id)
		os.MkdirAll(dir, 0o755)
		plain := gen.Data(r, "text", 4000)
		in, inBytes, target, tmp := "notes", plain, "notes."+s.f, "notes."+s.f+".compress"
		if s.dec {
			in, target, tmp = "notes."+s.f, "notes", "notes.decompress"
			inBytes = compressWith(s.f, plain)
		}
		stale := []byte("STALE CONTENT OF A FILE THAT HAS THE NAME OF THE TEMPORARY FILE " + strings.Repeat("x", 300))
		os.WriteFile(filepath.Join(dir, in), inBytes, 0o600)
		os.Chmod(filepath.Join(dir, in), s.inMode)
		os.WriteFile(filepath.Join(dir, tmp), stale, 0o600)
		os.Chmod(filepath.Join(dir, tmp), s.staleMode)
		var argv []string
		if s.dec {
			argv = append(argv, "-d")
		}
		if s.force {
			argv = append(argv, "-f")
		}
		argv = append(argv, "-F", s.f, in)
		if s.member && !s.dec {
			argv = append(argv, tmp)
		}
		res := runGxz(c, dir, argv, inject{}, false, nil)
		snap := dirSnapshot(dir)
		modes := map[string]os.FileMode{}
		for nme := range snap {
			if fi, err := os.Stat(filepath.Join(dir, nme)); err == nil {
				modes[nme] = fi.Mode().Perm()
			}
		}
		os.RemoveAll(dir)
		if res.RunErr != "" || res.Exit < 0 {
			c.Inconclusive(fmt.Sprintf("stale-temp scenario %s could not be run: %s", id, res.RunErr))
			return
		}
		c.Eval(fmt.Sprintf("stale-temp d%v f%v member%v %s", s.dec, s.force, s.member, s.f), true)
		c.Count("stale_tempfile_runs", 1)
		det := map[string]any{"case_id": id, "argv": argv, "exit": res.Exit, "stderr": clipStr(res.Stderr, 300), "directory_after": snapNames(snap), "input_mode": fmt.Sprintf("%o", s.inMode), "stale_file": tmp, "stale_mode": fmt.Sprintf("%o", s.staleMode)}
		viol := func(sig, what string) {
			det["what"] = what
			c.Violation(sig, det)
		}
		tb, tok := snap[target]
		complete := tok && ((s.dec && bytes.Equal(tb, plain)) || (!s.dec && decodesTo(s.f, tb, plain)))
		ib, iok := snap[in]
		if tok && !complete {
			viol("file-content", fmt.Sprintf("target %q exists (%d bytes) but is not the complete result", target, len(tb)))
		}
		if !complete && (!iok || !bytes.Equal(ib, inBytes)) {
			viol("file-content", fmt.Sprintf("no complete target and the input %q is present=%v intact=%v", in, iok, iok && bytes.Equal(ib, inBytes)))
		}
		if tok {
			if md := modes[target]; md&^s.inMode != 0 {
				viol("permission-bits-granted", fmt.Sprintf("%q has mode %o, the input had %o (a file named %q with mode %o existed before the run)", target, md, s.inMode, tmp, s.staleMode))
			}
		}
		if s.member && !s.dec {
			// the file with the temporary name was itself to be compressed: independent of the other
			sb, sok := snap[tmp]
			st, stok := snap[tmp+"."+s.f]
			if !(sok && bytes.Equal(sb, stale)) && !(stok && decodesTo(s.f, st, stale)) {
				viol("independent-files", fmt.Sprintf("the second file %q is neither intact nor completely compressed (present=%v, %d bytes; its target present=%v)", tmp, sok, len(sb), stok))
			}
			if (res.Exit == 0) != (complete && stok && !sok) {
				// exit 0 exactly when both files were processed
				if res.Exit == 0 {
					viol("exit-status", fmt.Sprintf("exit status 0 but not both files were processed (target complete=%v, second target present=%v)", complete, stok))
				}
			}
		} else if (res.Exit == 0) != complete {
			viol("exit-status", fmt.Sprintf("exit status %d, target complete = %v", res.Exit, complete))
		}
	})
}

// c15Related runs gxz with arguments that are related to each other: the same file twice, a
// symbolic link to another argument, a directory among the files.  The statement does not fix
// every detail of these runs (is a link followed? is the second mention an error?), so only
// what it does promise is judged: the content of every file is still recoverable (from its own
// path or from its complete target), nothing is granted permission bits the input lacked, no
// temporary file stays, and exit status 0 is only claimed when the target is complete.
func c15Related(c *ev.Ctx, base string) {
	type sc struct {
		kind        string // twice, symlink, dir-first, dir-last
		f           string
		dec         bool
		keep, force bool
	}
	var scs []sc
	for _, kind := range []string{"twice", "symlink", "dir-first", "dir-last"} {
		for _, f := range []string{"xz", "lzma"} {
			for fl := 0; fl < 4; fl++ {
				for _, dec := range []bool{false, true} {
					scs = append(scs, sc{kind, f, dec, fl&1 != 0, fl&2 != 0})
				}
			}
		}
	}
	par(len(scs), func(i int) {
		s := scs[i]
		id := fmt.Sprintf("related%d", i)
		noteCase(id)
		if !want(c, id) {
			return
		}
		r := prng.New(c.Seed, 153, uint64(i))
		dir := filepath.Join(base, id)
		os.MkdirAll(dir, 0o755)
		plain := gen.Data(r, "text", 5000)
		in, inBytes, target := "doc", plain, "doc."+s.f
		if s.dec {
			in, target = "doc."+s.f, "doc"
			inBytes = compressWith(s.f, plain)
		}
		os.WriteFile(filepath.Join(dir, in), inBytes, 0o640)
		os.Chmod(filepath.Join(dir, in), 0o640)
		var argv []string
		if s.dec {
			argv = append(argv, "-d")
		}
		if s.keep {
			argv = append(argv, "-k")
		}
		if s.force {
			argv = append(argv, "-f")
		}
		argv = append(argv, "-F", s.f)
		switch s.kind {
		case "twice":
			argv = append(argv, in, in)
		case "symlink":
			ln := "link"
			if s.dec {
				ln = "link." + s.f
			}
			os.Symlink(in, filepath.Join(dir, ln))
			argv = append(argv, ln, in)
		case "dir-first":
			os.Mkdir(filepath.Join(dir, "sub"), 0o755)
			argv = append(argv, "sub", in)
		default:
			os.Mkdir(filepath.Join(dir, "sub"), 0o755)
			argv = append(argv, in, "sub")
		}
		res := runGxz(c, dir, argv, inject{}, false, nil)
		snap := dirSnapshot(dir)
		modes := map[string]os.FileMode{}
		for nme := range snap {
			if fi, err := os.Lstat(filepath.Join(dir, nme)); err == nil && fi.Mode().IsRegular() {
				modes[nme] = fi.Mode().Perm()
			}
		}
		os.RemoveAll(dir)
		if res.RunErr != "" || res.Exit < 0 {
			c.Inconclusive(fmt.Sprintf("related-arguments scenario %s could not be run: %s", id, res.RunErr))
			return
		}
		c.Eval(fmt.Sprintf("related %s d%v k%v f%v %s", s.kind, s.dec, s.keep, s.force, s.f), true)
		c.Count("related_argument_runs", 1)
		det := map[string]any{"case_id": id, "argv": argv, "exit": res.Exit, "stderr": clipStr(res.Stderr, 300), "directory_after": snapNames(snap)}
		viol := func(sig, what string) {
			det["what"] = what
			c.Violation(sig, det)
		}
		complete := func(name string) bool {
			b, ok := snap[name]
			if !ok {
				return false
			}
			if name == in || (s.dec && strings.HasSuffix(name, "."+s.f)) {
				return bytes.Equal(b, inBytes) || (s.dec && decodesTo(s.f, b, plain))
			}
			if s.dec {
				return bytes.Equal(b, plain)
			}
			return decodesTo(s.f, b, plain)
		}
		recoverable := false
		for name := range snap {
			if strings.HasSuffix(name, "/") {
				continue
			}
			if complete(name) {
				recoverable = true
			}
			if strings.HasSuffix(name, ".compress") || strings.HasSuffix(name, ".decompress") {
				viol("temp-file-left", fmt.Sprintf("temporary file %q remains", name))
			}
			if md, ok := modes[name]; ok && md&^0o640 != 0 {
				viol("permission-bits-granted", fmt.Sprintf("%q has mode %o, the input had 640", name, md))
			}
		}
		if !recoverable {
			viol("file-content", fmt.Sprintf("after the run no file holds the data any more (neither %q intact nor a complete %q)", in, target))
		}
		if tb, ok := snap[target]; ok && !complete(target) {
			viol("file-content", fmt.Sprintf("target %q exists (%d bytes) but is not the complete result", target, len(tb)))
		}
		if res.Exit == 0 {
			if _, ok := snap[target]; !ok || !complete(target) {
				viol("exit-status", fmt.Sprintf("exit status 0 but the target %q is not complete", target))
			}
			if s.kind == "dir-first" || s.kind == "dir-last" {
				viol("exit-status", "exit status 0 although a directory was among the arguments")
			}
		}
	})
}

// c15Contents: 'gxz f' and 'gxz -d' on regular files whose content is built against the
// encoder (gen "carry:" families): literals that lead the range coder into a run of held-back
// bytes placed, file by file, at every few bytes of distance from the end of the first 64 KiB
// chunk, and short files with such runs for the .lzma format.  For every regular file the
// round trip restores the content.
func c15Contents(c *ev.Ctx, base string) {
	type cf struct {
		f, fam string
	}
	var files []cf
	for d := 120; d >= 0; d -= 4 {
		files = append(files, cf{"xz", fmt.Sprintf("carry:302:%d:120:%s:64", -(65536 - d), []string{"c", "n"}[(d/4)%2])})
	}
	for k := 0; k < 12; k++ {
		files = append(files, cf{"lzma", fmt.Sprintf("carry:302:%d:%d:%s:256", []int{0, 40, 700}[k%3], []int{8, 40, 150}[k/3%3], []string{"c", "n"}[k%2])})
	}
	for _, f := range []string{"xz", "lzma"} {
		id := "contents-" + f
		noteCase(id)
		if !want(c, id) {
			continue
		}
		dir := filepath.Join(base, id)
		os.MkdirAll(dir, 0o755)
		content := map[string][]byte{}
		var names []string
		for k, x := range files {
			if x.f != f {
				continue
			}
			name := fmt.Sprintf("c%03d.bin", k)
			content[name] = gen.Data(prng.New(c.Seed, 158, uint64(k)), x.fam, 0)
			os.WriteFile(filepath.Join(dir, name), content[name], 0o644)
			names = append(names, name)
		}
		r1 := runGxzPlain(c, dir, append([]string{"-F", f, "-1"}, names...))
		snap := dirSnapshot(dir)
		c.Eval(id, true)
		var bad []string
		var comp []string
		for _, n := range names {
			b, ok := snap[n+"."+f]
			if !ok || !decodesTo(f, b, content[n]) {
				bad = append(bad, fmt.Sprintf("%s (target present %v, %d bytes)", n, ok, len(b)))
			}
			noteCarry(c, "carry:", b)
			comp = append(comp, n+"."+f)
		}
		if r1.Exit != 0 || len(bad) > 0 {
			c.Violation("roundtrip-compress", map[string]any{"case_id": id, "exit": r1.Exit, "stderr": clipStr(r1.Stderr, 400), "files": len(names), "families": "carry (see gen)",
				"what": fmt.Sprintf("gxz -F %s on %d regular files with content built against the range coder: exit %d, %d file(s) without a complete result: %v", f, len(names), r1.Exit, len(bad), bad)})
			os.RemoveAll(dir)
			continue
		}
		r2 := runGxzPlain(c, dir, append([]string{"-d"}, comp...))
		snap = dirSnapshot(dir)
		bad = nil
		for _, n := range names {
			if !bytes.Equal(snap[n], content[n]) {
				bad = append(bad, n)
			}
		}
		if r2.Exit != 0 || len(bad) > 0 {
			c.Violation("roundtrip-restore", map[string]any{"case_id": id, "exit": r2.Exit, "stderr": clipStr(r2.Stderr, 400),
				"what": fmt.Sprintf("gxz -d on the %d results: exit %d, not restored: %v", len(names), r2.Exit, bad)})
		}
		c.Count("roundtrips_with_coder_built_content", int64(len(names)))
		os.RemoveAll(dir)
	}
}

// c15Fifo: a FIFO without a writer (and other non-regular files) among the arguments.  gxz must
// refuse it, process the other files as if they had been alone and exit non-zero.  A run that
// blocks is decided by state, not by a time limit: the process is observed (via
// /proc/<pid>/task/*/syscall and /proc/<pid>/mem) inside open(2) of the FIFO's name, a call
// that cannot return as long as nobody opens the other end; the harness then opens the other
// end (non-blocking) to let the process go.  If neither an exit nor that state is seen within
// the step budget the case is inconclusive.
func c15Fifo(c *ev.Ctx, base string) {
	type sc struct {
		pos  int // position of the special argument among three
		kind string
		dec  bool
	}
	var scs []sc
	for _, kind := range []string{"fifo", "devnull"} {
		for pos := 0; pos < 3; pos++ {
			for _, dec := range []bool{false, true} {
				scs = append(scs, sc{pos, kind, dec})
			}
		}
	}
	par(len(scs), func(i int) {
		s := scs[i]
		id := fmt.Sprintf("special%d", i)
		noteCase(id)
		if !want(c, id) {
			return
		}
		r := prng.New(c.Seed, 159, uint64(i))
		dir := filepath.Join(base, id)
		os.MkdirAll(dir, 0o755)
		defer os.RemoveAll(dir)
		d1, d2 := gen.Data(r, "text", 3000), gen.Data(r, "lowent", 2000)
		n1, n2, special := "first.txt", "second.txt", "queue"
		in1, in2 := d1, d2
		if s.dec {
			n1, n2, special = "first.txt.xz", "second.txt.xz", "queue.xz"
			in1, in2 = compressWith("xz", d1), compressWith("xz", d2)
		}
		os.WriteFile(filepath.Join(dir, n1), in1, 0o644)
		os.WriteFile(filepath.Join(dir, n2), in2, 0o644)
		sp := filepath.Join(dir, special)
		if s.kind == "fifo" {
			if err := syscall.Mkfifo(sp, 0o644); err != nil {
				c.Inconclusive("mkfifo: " + err.Error())
				return
			}
		} else if err := os.Symlink("/dev/null", sp); err != nil {
			c.Inconclusive("symlink: " + err.Error())
			return
		}
		args := []string{n1, n2}
		args = append(args[:s.pos], append([]string{special}, args[s.pos:]...)...)
		if s.dec {
			args = append([]string{"-d"}, args...)
		}
		cmd := exec.Command(gxzBinary(), args...)
		cmd.Dir = dir
		var eb bytes.Buffer
		cmd.Stderr = &eb
		cmd.Stdout = nil
		if err := cmd.Start(); err != nil {
			c.Inconclusive("start: " + err.Error())
			return
		}
		exited := make(chan struct{})
		go func() { cmd.Wait(); close(exited) }()
		blocked, done := false, false
		for step := 0; step < 3000 && !done; step++ {
			select {
			case <-exited:
				done = true
				continue
			default:
			}
			if s.kind == "fifo" && blockedInOpenOf(cmd.Process.Pid, special) {
				blocked = true
				// let it go: open the other end without blocking
				if fd, err := syscall.Open(sp, syscall.O_WRONLY|syscall.O_NONBLOCK, 0); err == nil {
					syscall.Close(fd)
				}
			}
			time.Sleep(20 * time.Millisecond)
		}
		if !done {
			cmd.Process.Kill() // SIGKILL: no handler runs
			<-exited
			if !blocked {
				c.Inconclusive(fmt.Sprintf("%s: gxz %v neither exited nor was seen blocked in open(2) within the step budget", id, args))
				return
			}
		}
		c.Eval(fmt.Sprintf("special %s pos%d d%v", s.kind, s.pos, s.dec), true)
		c.Count("special_file_argument_runs", 1)
		// (the FIFO is looked at and removed before the directory is read: reading it would block)
		fi, lerr := os.Lstat(sp)
		specialKept := lerr == nil && (s.kind != "fifo" || fi.Mode()&os.ModeNamedPipe != 0)
		os.Remove(sp)
		snap := dirSnapshot(dir)
		exit := cmd.ProcessState.ExitCode()
		det := map[string]any{"case_id": id, "argv": args, "exit": exit, "stderr": clipStr(eb.String(), 300), "directory_after": snapNames(snap), "special": s.kind}
		viol := func(sig, what string) {
			det["what"] = what
			c.Violation(sig, det)
		}
		if blocked {
			viol("independent-files", fmt.Sprintf("gxz %v blocks in open(2) of the FIFO %q (no writer): the arguments behind it are not processed and the run does not end", args, special))
			return
		}
		okOne := func(in, out string, plain []byte) bool {
			_, inThere := snap[in]
			b, outThere := snap[out]
			if inThere || !outThere {
				return false
			}
			if s.dec {
				return bytes.Equal(b, plain)
			}
			return decodesTo("xz", b, plain)
		}
		o1, o2 := n1+".xz", n2+".xz"
		if s.dec {
			o1, o2 = "first.txt", "second.txt"
		}
		if !okOne(n1, o1, d1) || !okOne(n2, o2, d2) {
			viol("independent-files", fmt.Sprintf("a %s among the arguments: the regular files were not both processed (directory %v)", s.kind, snapNames(snap)))
		}
		if exit == 0 {
			viol("exit-status", fmt.Sprintf("exit status 0 although the argument %q (%s) cannot be processed", special, s.kind))
		}
		if !specialKept {
			viol("file-content", fmt.Sprintf("the %s argument was removed or replaced", s.kind))
		}
	})
}

// blockedInOpenOf tells whether a thread of pid sits in open/openat of a path whose last
// element is name.
func blockedInOpenOf(pid int, name string) bool {
	tasks, _ := os.ReadDir(fmt.Sprintf("/proc/%d/task", pid))
	for _, t := range tasks {
		b, err := os.ReadFile(fmt.Sprintf("/proc/%d/task/%s/syscall", pid, t.Name()))
		if err != nil {
			continue
		}
		f := strings.Fields(string(b))
		if len(f) < 3 {
			continue
		}
		var ptr uint64
		switch f[0] {
		case "257": // openat(dirfd, path, ...)
			fmt.Sscanf(f[2], "0x%x", &ptr)
		case "2": // open(path, ...)
			fmt.Sscanf(f[1], "0x%x", &ptr)
		default:
			continue
		}
		mem, err := os.Open(fmt.Sprintf("/proc/%d/mem", pid))
		if err != nil {
			continue
		}
		buf := make([]byte, 512)
		n, _ := mem.ReadAt(buf, int64(ptr))
		mem.Close()
		if k := bytes.IndexByte(buf[:n], 0); k >= 0 {
			if p := string(buf[:k]); p == name || strings.HasSuffix(p, "/"+name) {
				return true
			}
		}
	}
	return false
}
