package main

import (
	"bufio"
	"bytes"
	"fmt"
	"io"
	"strings"
	"sync/atomic"
	"verif/internal/ev"
	"verif/internal/mon"

	"github.com/ulikunitz/xz"
	"github.com/ulikunitz/xz/lzma"
)

// libReadAll decodes with the library's xz reader.
func libXZ(in []byte, cfg xz.ReaderConfig) (out []byte, err error) {
	defer func() {
		if p := recover(); p != nil {
			err = fmt.Errorf("PANIC: %v", p)
		}
	}()
	r, err := cfg.NewReader(sourceVaried(in, uint64(cfg.DictCap)))
	if err != nil {
		return nil, fmt.Errorf("open: %w", err)
	}
	return readVaried(r, in, uint64(cfg.DictCap))
}

func libLZMA(in []byte) (out []byte, err error) {
	defer func() {
		if p := recover(); p != nil {
			err = fmt.Errorf("PANIC: %v", p)
		}
	}()
	r, err := lzma.ReaderConfig{DictCap: 4096}.NewReader(sourceVaried(in, 1))
	if err != nil {
		return nil, fmt.Errorf("open: %w", err)
	}
	return readVaried(r, in, 1)
}

func libLZMA2(in []byte, dict int) (out []byte, err error) {
	defer func() {
		if p := recover(); p != nil {
			err = fmt.Errorf("PANIC: %v", p)
		}
	}()
	r, err := lzma.Reader2Config{DictCap: dict}.NewReader2(sourceVaried(in, uint64(dict)+2))
	if err != nil {
		return nil, fmt.Errorf("open: %w", err)
	}
	return readVaried(r, in, uint64(dict)+2)
}

// readVaried reads r to the end like io.ReadAll, but with a schedule of buffer lengths that is a
// function of the stream bytes and salt: half of the streams are read exactly like io.ReadAll,
// the others one byte at a time (short streams), with small or medium random lengths, or with
// one large buffer.  The decoded result must not depend on it, so callers need not care.
func readVaried(r io.Reader, in []byte, salt uint64) ([]byte, error) {
	h := salt*0x9e3779b97f4a7c15 + uint64(len(in))
	for i := 0; i < len(in); i += 1 + len(in)/64 {
		h = (h ^ uint64(in[i])) * 0x100000001b3
	}
	mode := (h >> 33) % 8
	if mode < 4 || (mode == 4 && len(in) > 8192) {
		return io.ReadAll(r)
	}
	var out []byte
	x := h | 1
	for {
		x ^= x << 13
		x ^= x >> 7
		x ^= x << 17
		l := 1
		switch mode {
		case 5:
			l = 1 + int(x%64)
		case 6:
			l = 1 + int(x%5000)
		case 7:
			l = 1 << 20
		}
		p := mon.GuardedBuf(l)
		n, err := r.Read(p)
		if n < 0 || n > l {
			return out, fmt.Errorf("Read with a buffer of %d bytes returned n=%d", l, n)
		}
		if !mon.GuardIntact(p) {
			return out, fmt.Errorf("Read with a buffer of %d bytes (a window of a larger array) wrote behind the window", l)
		}
		out = append(out, p[:n]...)
		if err == io.EOF {
			return out, nil
		}
		if err != nil {
			return out, err
		}
	}
}

// sourceVaried wraps the stream bytes in one of several kinds of io.Reader, chosen by a hash of
// the bytes and salt: a *bytes.Reader (which is also an io.ByteReader and io.WriterTo) for half
// of the streams, otherwise a plain reader that delivers everything at once, short reads, or
// its last bytes together with io.EOF.  All of them are legal sources; the result of decoding
// must not depend on the choice.
func sourceVaried(in []byte, salt uint64) io.Reader {
	h := (salt+7)*0x9e3779b97f4a7c15 ^ uint64(len(in))*0x100000001b3
	for i := 0; i < len(in); i += 1 + len(in)/32 {
		h = (h ^ uint64(in[i])) * 0x100000001b3
	}
	mode := (h >> 29) % 8
	if mode < 4 {
		// the standard library's concrete types a reader meets in production
		switch (h >> 40) % 6 {
		case 0:
			return bytes.NewBuffer(append([]byte(nil), in...))
		case 1:
			return strings.NewReader(string(in))
		case 2:
			return bufio.NewReaderSize(struct{ io.Reader }{bytes.NewReader(in)}, 16+int(h>>50)%300)
		}
		return bytes.NewReader(in)
	}
	src := mon.NewSource(in)
	switch mode {
	case 4:
		src.Frag = "whole"
	case 5, 6:
		src.Frag = "eofwith"
	default:
		src.Frag = "short"
	}
	x := h | 1
	src.Next = func(max int) int {
		x ^= x << 13
		x ^= x >> 7
		x ^= x << 17
		return 1 + int(x%4000)
	}
	return src
}

var carryMax int64

// noteCarry records, for content of the "carry:" families, the longest run of 0xff or 0x00
// bytes in the emitted stream: the trace a run of held-back bytes leaves when it is released
// without or with a carry.  It shows whether the writer really went through those states.
func noteCarry(c *ev.Ctx, family string, out []byte) {
	if !strings.HasPrefix(family, "carry:") {
		return
	}
	best, run := 0, 0
	for i := range out {
		if i > 0 && out[i] == out[i-1] && (out[i] == 0xff || out[i] == 0) {
			run++
		} else {
			run = 1
		}
		if run > best {
			best = run
		}
	}
	c.Count("carry_family_streams", 1)
	if best >= 6 {
		c.Count("carry_family_streams_with_run_of_6_or_more", 1)
	}
	for {
		old := atomic.LoadInt64(&carryMax)
		if int64(best) <= old {
			return
		}
		if atomic.CompareAndSwapInt64(&carryMax, old, int64(best)) {
			c.Set("longest_released_run_in_emitted_streams", best)
			return
		}
	}
}

// callerWrite passes p to w the way a caller with a reused buffer does (for odd salts): the
// bytes are handed over in a buffer of the caller's own that is overwritten as soon as Write
// has returned.  io.Writer forbids implementations to retain p; a writer that keeps a reference
// instead of a copy compresses the overwritten bytes.
func callerWrite(w io.Writer, p []byte, salt uint64) (int, error) {
	if salt%2 == 0 || len(p) == 0 {
		return w.Write(p)
	}
	buf := make([]byte, len(p), len(p)+int(salt>>1)%9)
	copy(buf, p)
	n, err := w.Write(buf)
	for i := range buf {
		buf[i] = 0xA5
	}
	return n, err
}

// sinkKinds: what a writer is connected to.  0: the recording sink itself; 1: a *bufio.Writer
// in front of it (flushed by the caller after Close, as gxz does); 2: a *bytes.Buffer whose
// content is moved to the recording sink afterwards; 3: an *os.File-like two-step sink is not
// modelled.  finish must be called after the last call on the writer.
func sinkKind(kind uint64, sink *mon.Sink) (w io.Writer, finish func()) {
	switch kind % 4 {
	case 1:
		bw := bufio.NewWriterSize(sink, 16+int(kind>>2)%5000)
		return bw, func() { bw.Flush() }
	case 2:
		var b bytes.Buffer
		return &b, func() { sink.Buf = append(sink.Buf, b.Bytes()...); b.Reset() }
	}
	return sink, func() {}
}
