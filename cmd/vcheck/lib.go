package main

import (
	"bytes"
	"fmt"
	"io"

	"github.com/ulikunitz/xz"
	"github.com/ulikunitz/xz/lzma"
)

// libReadAll decodes with the library's xz reader.
func libXZ(in []byte, cfg xz.ReaderConfig) (out []byte, err error) {
	defer func() {
		if p := recover(); p != nil {
			err = fmt.Errorf("PANIC: %v", p)
		}
	}()
	r, err := cfg.NewReader(bytes.NewReader(in))
	if err != nil {
		return nil, fmt.Errorf("open: %w", err)
	}
	out, err = io.ReadAll(r)
	return out, err
}

func libLZMA(in []byte) (out []byte, err error) {
	defer func() {
		if p := recover(); p != nil {
			err = fmt.Errorf("PANIC: %v", p)
		}
	}()
	r, err := lzma.ReaderConfig{DictCap: 4096}.NewReader(bytes.NewReader(in))
	if err != nil {
		return nil, fmt.Errorf("open: %w", err)
	}
	return io.ReadAll(r)
}

func libLZMA2(in []byte, dict int) (out []byte, err error) {
	defer func() {
		if p := recover(); p != nil {
			err = fmt.Errorf("PANIC: %v", p)
		}
	}()
	r, err := lzma.Reader2Config{DictCap: dict}.NewReader2(bytes.NewReader(in))
	if err != nil {
		return nil, fmt.Errorf("open: %w", err)
	}
	return io.ReadAll(r)
}
