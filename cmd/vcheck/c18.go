package main

import (
	"bytes"
	"fmt"
	"io"
	"sync"
	"verif/internal/gen"
	"verif/internal/mon"

	"github.com/ulikunitz/xz"
	"github.com/ulikunitz/xz/lzma"

	"verif/internal/ev"
	"verif/internal/prng"
	"verif/internal/ref"
)

func init() { register("C18", "exploration", checkC18) }

// dictTable is the list of the 41 dictionary sizes representable in an LZMA2
// filter property byte, written down from the .xz specification (5.3.1):
// bits = code; size = (2 | (bits & 1)) << (bits / 2 + 11); code 40 = 4 GiB - 1.
func dictTable() [41]int64 {
	var t [41]int64
	for c := 0; c < 40; c++ {
		t[c] = int64(2|c&1) << uint(c/2+11)
	}
	t[40] = 1<<32 - 1
	return t
}

func checkC18(c *ev.Ctx) {
	c.SetRule("all 256 code bytes through DecodeDictCap and (as the dictionary byte of an otherwise valid .xz stream) through xz.Reader; all capacities 1..2^32-1 through EncodeDictCap, each compared with the code a running pointer over the 41-entry specification table predicts (distinct non-trivial = distinct (chosen code) classes observed plus distinct decode outcomes); plus the dictionary byte of block headers emitted by xz.Writer for sampled DictCap values")
	c.Assume("the 41-entry table (2|c&1)<<(c/2+11), 2^32-1 for code 40, transcribed from xz-file-format 1.0.4 section 5.3.1 is the specification")
	tab := dictTable()

	// Part 1: decoder, all 256 codes.
	if want(c, "decode") {
		prev := int64(-1)
		for code := 0; code < 256; code++ {
			n, err := lzma.DecodeDictCap(byte(code))
			if code <= 40 {
				c.Eval(fmt.Sprintf("decode-ok-%d", code), true)
				if err != nil || n != tab[code] || n <= prev {
					c.Violation("decode-table", map[string]any{"case_id": "decode",
						"what": fmt.Sprintf("DecodeDictCap(%d) = (%d, %v); specification says %d (strictly increasing)", code, n, err, tab[code])})
				}
				prev = n
			} else {
				c.Eval("decode-reject", true)
				if err == nil {
					c.Violation("decode-accepts-invalid", map[string]any{"case_id": "decode",
						"what": fmt.Sprintf("DecodeDictCap(%d) accepted with %d; codes above 40 are invalid", code, n)})
				}
			}
		}
	}

	// Part 2: encoder, the complete domain 1..2^32-1, also 0 and values
	// beyond the domain are observed (no verdict: outside the quantifier).
	if want(c, "encode") {
		const total = int64(1<<32 - 1)
		parts := 256
		var mu sync.Mutex
		boundaries := map[int]int64{} // code -> smallest n that chose it
		bad := int64(0)
		par(parts, func(p int) {
			lo := 1 + int64(p)*(total/int64(parts))
			hi := lo + total/int64(parts) - 1
			if p == parts-1 {
				hi = total
			}
			ptr := 0
			for tab[ptr] < lo {
				ptr++
			}
			first := map[int]int64{}
			for n := lo; n <= hi; n++ {
				for tab[ptr] < n {
					ptr++
				}
				got := int(lzma.EncodeDictCap(n))
				if got != ptr {
					mu.Lock()
					bad++
					if bad <= 3 {
						c.Violation("encode-not-minimal-cover", map[string]any{"case_id": "encode", "n": n,
							"what": fmt.Sprintf("EncodeDictCap(%d) = %d (size %d); smallest representable size >= n is code %d (size %d)", n, got, tab[got%41], ptr, tab[ptr])})
					}
					mu.Unlock()
				}
				if _, ok := first[got]; !ok {
					first[got] = n
				}
			}
			mu.Lock()
			for k, v := range first {
				if o, ok := boundaries[k]; !ok || v < o {
					boundaries[k] = v
				}
			}
			mu.Unlock()
			c.EvalN(hi-lo+1, "", false)
		})
		bl := []string{}
		for code := 0; code <= 40; code++ {
			if v, ok := boundaries[code]; ok {
				c.Eval(fmt.Sprintf("encode-code-%d", code), true)
				bl = append(bl, fmt.Sprintf("%d:%d", code, v))
			}
		}
		c.Set("first_capacity_choosing_each_code", bl)
		c.Set("encode_mismatches", bad)
		c.Exhaustive(true)
		c.Set("exhaustive_part", "EncodeDictCap over all 2^32-1 capacities and DecodeDictCap over all 256 codes; the block-header part is sampled")
		c.Sample(map[string]any{"n": 4097, "EncodeDictCap": lzma.EncodeDictCap(4097), "expected_code": 1})
		c.Sample(map[string]any{"n": int64(1<<32 - 1), "EncodeDictCap": lzma.EncodeDictCap(1<<32 - 1), "expected_code": 40})
	}

	// Part 2b: the code byte as the xz reader sees it: a valid stream built by the
	// independent serializer with every one of the 256 values as dictionary byte.
	// Codes above 30 (> 128 MiB) are only required to be accepted/rejected at the
	// header level for the invalid ones; valid large ones are not read (the reader
	// allocates what the header declares).
	if want(c, "reader") {
		l2, content, _ := ref.GenLZMA2(prng.New(c.Seed, 181), ref.LZMA2Plan{DictSize: 4096, NChunks: 2, OpsPer: 40})
		for code := 0; code < 256; code++ {
			if code > 30 && code <= 40 {
				continue
			}
			stream := ref.BuildXZ(ref.CheckCRC32, []ref.BlockSpec{{LZMA2: l2, Content: content, DictCode: byte(code)}})
			out, err := libXZ(stream, xz.ReaderConfig{DictCap: 4096})
			c.Eval(fmt.Sprintf("reader-code-%d", code), true)
			if code <= 30 && (err != nil || !bytes.Equal(out, content)) {
				c.Violation("reader-rejects-valid-dict-code", map[string]any{"case_id": "reader", "code": code,
					"what": fmt.Sprintf("xz.Reader on a valid stream whose block header declares dictionary code %d: %v (%d of %d bytes)", code, err, len(out), len(content))})
			}
			if code > 40 && err == nil {
				c.Violation("reader-accepts-invalid-dict-code", map[string]any{"case_id": "reader", "code": code,
					"what": fmt.Sprintf("xz.Reader accepts a block header with the invalid dictionary code %#02x (decoded %d bytes)", code, len(out))})
			}
			c.Count("reader_dict_codes_checked", 1)
		}
	}

	// Part 3: the dictionary byte actually emitted in block headers.
	caps := []int{4096, 4097, 6144, 6145, 8192, 8193, 12288, 65535, 65536, 65537, 1 << 20, 1<<20 + 1}
	r := prng.New(c.Seed, 18)
	nrand := 6
	if thorough(c) {
		for code := 0; code <= 29; code++ { // up to 64 MiB
			for _, d := range []int64{-1, 0, 1} {
				v := tab[code] + d
				if v >= 4096 && v <= 64<<20 {
					caps = append(caps, int(v))
				}
			}
		}
		nrand = 60
	}
	for i := 0; i < nrand; i++ {
		caps = append(caps, r.Range(4096, 4<<20))
	}
	for i, dc := range caps {
		id := fmt.Sprintf("hdr-%d", i)
		noteCase(id)
		if !want(c, id) {
			continue
		}
		var buf bytes.Buffer
		// the other configuration dimensions must not influence the declared size
		cfg := xz.WriterConfig{DictCap: dc}
		switch i % 4 {
		case 1:
			cfg.BlockSize = int64(r.Pick(1, 100, 4096, dc/2, dc-1))
		case 2:
			cfg.BufSize, cfg.BlockSize = r.Pick(273, 65536), int64(dc)+1
		case 3:
			cfg.CheckSum, cfg.BlockSize = xz.SHA256, int64(r.Range(1, dc))
		}
		if i%5 == 4 {
			// the configuration variable was verified and used with another capacity before
			final := cfg
			cfg = xz.WriterConfig{DictCap: []int{4096, 1 << 22}[i%2]}
			cfg.Verify()
			if w0, err := cfg.NewWriter(io.Discard); err == nil {
				w0.Close()
			}
			cfg.DictCap = final.DictCap
			if final.BlockSize != 0 {
				cfg.BlockSize = final.BlockSize
			}
			if final.BufSize != 0 {
				cfg.BufSize = final.BufSize
			}
			if final.CheckSum != 0 {
				cfg.CheckSum = final.CheckSum
			}
		}
		w, err := cfg.NewWriter(&buf)
		if err != nil {
			c.Inconclusive(fmt.Sprintf("NewWriter DictCap=%d: %v", dc, err))
			continue
		}
		w.Write([]byte("xyz"))
		w.Close()
		b := buf.Bytes()
		want := 0
		for tab[want] < int64(dc) {
			want++
		}
		c.Eval(fmt.Sprintf("hdr-code-%d", want), true)
		if len(b) < 17 || b[14] != 0x21 || b[15] != 1 || int(b[16]) != want {
			c.Violation("block-header-dict-byte", map[string]any{"case_id": id, "dictcap": dc,
				"head": ev.Hex(b, 64),
				"what": fmt.Sprintf("block header for DictCap %d carries filter bytes % x; want 21 01 %02x", dc, b[14:min(17, len(b))], want)})
		}
		if i < 2 {
			c.Sample(map[string]any{"DictCap": dc, "block_header_dict_byte": b[16], "expected": want})
		}
		c.Count("block_headers_checked", 1)
	}
	// the look-ahead buffer larger than the dictionary: the size a block header declares must
	// cover the window the encoder really searches - judged by the strict reference decoder on a
	// block of noise repeated at distances between the configured capacity and the buffer size
	for i, p2 := range [][2]int{{4096, 8192}, {4096, 65536}, {8192, 65536}, {12289, 40000}, {65536, 1 << 20}} {
		for m := 0; m < 2; m++ {
			id := fmt.Sprintf("hdr-bufsize-%d-%d", i, m)
			noteCase(id)
			if !want(c, id) {
				continue
			}
			dc, bs := p2[0], p2[1]
			var all []byte
			for _, l := range []int{dc + 1, (dc + bs) / 2, bs - 1} {
				x := gen.Data(r, "random", l)
				all = append(append(all, x...), x...)
			}
			b := libWriteXZ(xz.WriterConfig{DictCap: dc, BufSize: bs, Matcher: lzma.MatchAlgorithm(m)}, all)
			out, ss, err := ref.DecodeXZ(b, 0)
			c.Eval("hdr-bufsize", true)
			c.Count("bufsize_above_dictcap_streams_checked", 1)
			if err != nil || !bytes.Equal(out, all) {
				var codes []int
				for _, st := range ss {
					for _, bl := range st.Blocks {
						codes = append(codes, int(bl.DictCode))
					}
				}
				c.Violation("block-header-dict-byte", map[string]any{"case_id": id, "dictcap": dc, "bufsize": bs, "matcher": m, "declared_codes_seen": codes,
					"what": fmt.Sprintf("DictCap %d with BufSize %d: the stream is not decodable within the dictionary size its block header declares (code for %d expected): %v", dc, bs, dc, err)})
			}
		}
	}
	// writers whose sink uses the library itself while a Write call is in progress: a second
	// writer with another capacity emits its own block headers from inside the sink (side
	// activity), or the sink of one xz writer is another xz writer (xz in xz, small blocks so
	// that inner headers straddle outer block boundaries).  Every header must carry the code
	// of its own writer.
	codeOf := func(dc int) int {
		k := 0
		for tab[k] < int64(dc) {
			k++
		}
		return k
	}
	for i, pr := range [][2]int{{1 << 20, 4096}, {4096, 1 << 22}, {65537, 8192}, {12288, 1 << 16}} {
		for mode := 0; mode < 2; mode++ {
			id := fmt.Sprintf("hdr-reentrant-%d-%d", i, mode)
			noteCase(id)
			if !want(c, id) {
				continue
			}
			data := gen.Data(r, "text", 3000)
			var inner []byte // the stream of the writer with capacity pr[0]
			var outer bytes.Buffer
			var werr error
			if mode == 0 {
				var other bytes.Buffer
				wb, err := xz.WriterConfig{DictCap: pr[1], BlockSize: 16}.NewWriter(&other)
				if err != nil {
					c.Inconclusive(fmt.Sprintf("NewWriter: %v", err))
					continue
				}
				sink := mon.NewSink()
				sink.Yield = func() { wb.Write([]byte("0123456789abcdefg")) }
				wa, err := xz.WriterConfig{DictCap: pr[0], BlockSize: 40}.NewWriter(sink)
				if err != nil {
					c.Inconclusive(fmt.Sprintf("NewWriter: %v", err))
					continue
				}
				_, werr = wa.Write(data)
				if e := wa.Close(); werr == nil {
					werr = e
				}
				wb.Close()
				inner = sink.Buf
				outer = other
			} else {
				wb, err := xz.WriterConfig{DictCap: pr[1], BlockSize: 16}.NewWriter(&outer)
				if err != nil {
					c.Inconclusive(fmt.Sprintf("NewWriter: %v", err))
					continue
				}
				wa, err := xz.WriterConfig{DictCap: pr[0], BlockSize: 40}.NewWriter(wb)
				if err != nil {
					c.Inconclusive(fmt.Sprintf("NewWriter: %v", err))
					continue
				}
				_, werr = wa.Write(data)
				if e := wa.Close(); werr == nil {
					werr = e
				}
				if e := wb.Close(); werr == nil {
					werr = e
				}
				inner, _, _ = ref.DecodeXZ(outer.Bytes(), 0)
			}
			c.Eval(fmt.Sprintf("hdr-reentrant-mode%d", mode), true)
			bad := ""
			check := func(name string, b []byte, dc int) {
				_, ss, err := ref.DecodeXZ(b, 0)
				if err != nil {
					bad += fmt.Sprintf("%s stream (DictCap %d) is not decodable: %v; ", name, dc, err)
					return
				}
				for _, st := range ss {
					for bi, bl := range st.Blocks {
						c.Count("reentrant_block_headers_checked", 1)
						if int(bl.DictCode) != codeOf(dc) && bad == "" {
							bad += fmt.Sprintf("%s stream: block %d declares dictionary code %d, the writer's DictCap %d needs %d; ", name, bi, bl.DictCode, dc, codeOf(dc))
						}
					}
				}
			}
			if werr != nil {
				bad = fmt.Sprintf("writer error: %v", werr)
			} else {
				check("first", inner, pr[0])
				check("second", outer.Bytes(), pr[1])
			}
			if bad != "" {
				c.Violation("block-header-dict-byte", map[string]any{"case_id": id, "capacities": pr, "nested": mode == 1,
					"what": "two xz writers, one active inside the other's sink Write: " + bad})
			}
		}
	}
	// the capacity is raised on the live writer (xz.Writer embeds its exported configuration)
	// between two blocks: whatever the writer makes of that, the size a block header declares
	// must cover the capacity its encoder really uses - judged by the strict reference decoder
	// on data whose second block repeats bytes farther back than the first capacity
	for i, caps2 := range [][2]int{{4096, 1 << 20}, {8192, 65536}, {1 << 16, 1 << 22}} {
		id := fmt.Sprintf("hdr-live-%d", i)
		noteCase(id)
		if !want(c, id) {
			continue
		}
		var buf bytes.Buffer
		bs := 2*caps2[1] + 5000
		w, err := xz.WriterConfig{DictCap: caps2[0], BlockSize: int64(bs)}.NewWriter(&buf)
		if err != nil {
			c.Inconclusive(fmt.Sprintf("NewWriter: %v", err))
			continue
		}
		x := gen.Data(r, "random", 3000)
		d1 := append(append([]byte{}, x...), make([]byte, bs-3000)...) // block 1
		far := caps2[1] - 4000                                         // > old capacity, < new capacity
		d2 := append(append(append([]byte{}, x[:1500]...), make([]byte, far-1500)...), x[:1500]...)
		w.Write(d1)
		w.DictCap = caps2[1]
		w.Write(d2)
		w.Close()
		all := append(d1, d2...)
		out, ss, err := ref.DecodeXZ(buf.Bytes(), 0)
		c.Eval("hdr-live", true)
		c.Count("live_capacity_changes_checked", 1)
		if err != nil || !bytes.Equal(out, all) {
			var codes []int
			for _, st := range ss {
				for _, bl := range st.Blocks {
					codes = append(codes, int(bl.DictCode))
				}
			}
			c.Violation("block-header-dict-byte", map[string]any{"case_id": id, "capacities": caps2, "declared_codes_seen": codes,
				"what": fmt.Sprintf("DictCap raised from %d to %d on the live writer between two blocks: the stream is not decodable within the dictionary sizes its block headers declare: %v", caps2[0], caps2[1], err)})
		}
	}
}
