package main

import (
	"bytes"
	"fmt"
	"os"
	"os/exec"
	"path/filepath"
	"sync"

	"verif/internal/ev"
	"verif/internal/lzc"
	"verif/internal/ref"
)

func init() { register("C02", "exploration", checkC02) }

func checkC02(c *ev.Ctx) {
	c.SetRule("the C01 case generator (config x family x length x partition, a separate draw); every emitted stream - whether or not it round-trips - is decoded by the strict independent reference decoder and by liblzma, and its structure report is compared with the configuration. distinct non-trivial = distinct tuples (config classes | family | chunk kinds | block count class) with non-empty input")
	c.Assume("internal/ref implements xz-file-format 1.0.4 / LZMA / LZMA2 correctly (cross-checked in this run against liblzma on the same streams: see reference_agreement)", "liblzma "+lzc.Version()+" when linked")
	n, big := c01Counts(c)
	cases := xzCases(c.Seed, 2, n, big)
	cases = append(cases, bigXZCases(c.Seed+100)...)
	c.MinEvals(int64(len(cases) / 2))
	xzcli := ""
	if thorough(c) {
		if p, err := exec.LookPath("xz"); err == nil {
			xzcli = p
		}
	}
	c.Set("liblzma_linked", lzc.Available())
	var maxMu sync.Mutex
	var maxDist int64
	defer func() { c.Set("largest_match_distance_seen", maxDist) }()
	par(len(cases), func(i int) {
		k := cases[i]
		noteCase(k.ID)
		if !want(c, k.ID) {
			return
		}
		run := runXZWriter(k)
		if run.Sink != nil {
			noteCarry(c, k.Family, run.Sink.Buf)
		}
		det := k.desc()
		inputDetail(det, run.Data)
		if run.NewErr != nil || run.Panic != nil {
			// no stream was emitted completely; C01 judges that. Only streams are judged here.
			c.Count("cases_without_stream", 1)
			c.Eval(k.class(), false)
			return
		}
		stream := run.Sink.Buf
		det["output_len"] = len(stream)
		det["output_head"] = ev.Hex(stream, 256)
		if run.WriteErr != "" {
			det["writer_reported"] = run.WriteErr
			c.Count("cases_with_writer_error", 1)
			c.Eval(k.class(), false)
			return
		}
		out, streams, err := ref.DecodeXZ(stream, 0)
		fail := func(sig, what string) {
			det["what"] = what
			c.Violation(sig, det)
		}
		switch {
		case err != nil:
			fail("ref-rejects:"+errClass(err), fmt.Sprintf("reference decoder rejects the emitted stream after %d bytes of output: %v", len(out), err))
			c.Eval(k.class(), false)
			return
		case !bytes.Equal(out, run.Data):
			fail("ref-content-mismatch", fmt.Sprintf("reference decoder yields %d bytes, input had %d (first difference at %d)", len(out), len(run.Data), firstDiff(out, run.Data)))
			c.Eval(k.class(), false)
			return
		}
		if len(streams) != 1 || streams[0].PaddingAfter != 0 {
			fail("not-single-stream", fmt.Sprintf("%d streams, trailing padding %d", len(streams), streams[0].PaddingAfter))
		}
		s := streams[0]
		if s.Check != k.checkID() {
			fail("wrong-check-id", fmt.Sprintf("stream flags declare check %d, configured %d", s.Check, k.checkID()))
		}
		wantBlocks := 1
		bs := k.BlockSize
		if bs > 0 && int64(len(run.Data)) > bs {
			wantBlocks = int((int64(len(run.Data)) + bs - 1) / bs)
		}
		// every block except the last holds exactly BlockSize bytes and the last at most
		// BlockSize (checked below); that leaves ceil(n/BlockSize) blocks, or one more if
		// an empty last block is emitted, which the statement does not forbid
		if len(s.Blocks) != wantBlocks && !(bs > 0 && len(s.Blocks) == wantBlocks+1 && s.Blocks[len(s.Blocks)-1].UncLen == 0) {
			fail("block-count", fmt.Sprintf("%d blocks for %d bytes with BlockSize %d, want %d", len(s.Blocks), len(run.Data), bs, wantBlocks))
		}
		var st ref.Stats
		kinds := map[string]bool{}
		for bi, b := range s.Blocks {
			if bs > 0 && bi < len(s.Blocks)-1 && int64(b.UncLen) != bs {
				fail("block-size", fmt.Sprintf("block %d of %d holds %d bytes, configured BlockSize %d", bi, len(s.Blocks), b.UncLen, bs))
			}
			if bs > 0 && int64(b.UncLen) > bs {
				fail("block-size", fmt.Sprintf("block %d holds %d bytes, more than the configured BlockSize %d", bi, b.UncLen, bs))
			}
			if b.Stats.MaxDist > b.DictSize {
				fail("dict-too-small", fmt.Sprintf("declared dictionary %d < distance %d", b.DictSize, b.Stats.MaxDist))
			}
			for _, ch := range b.Chunks {
				kinds[ch.Kind] = true
				lim := ref.MaxLZMA2Unc
				if ch.Control < 0x80 {
					lim = ref.MaxLZMA2RawSz
				}
				if ch.Unc > lim || ch.Comp > ref.MaxLZMA2Comp {
					fail("chunk-limit", fmt.Sprintf("chunk %s with %d/%d bytes", ch.Kind, ch.Unc, ch.Comp))
				}
			}
			st.Add(b.Stats)
		}
		// foreign opinion
		if lzc.Available() {
			res := lzc.DecodeXZ(stream, false, 0)
			if !res.OK() || !bytes.Equal(res.Out, run.Data) || res.Consumed != len(stream) {
				fail("liblzma-rejects", fmt.Sprintf("liblzma stream decoder: %v, %d bytes out, consumed %d of %d", res.Err(), len(res.Out), res.Consumed, len(stream)))
			} else {
				c.Count("reference_agreement", 1)
			}
		}
		if xzcli != "" && i%20 == 0 {
			dir := filepath.Join(c.WorkDir, "c02")
			os.MkdirAll(dir, 0o755)
			f := filepath.Join(dir, fmt.Sprintf("%s.xz", k.ID))
			os.WriteFile(f, stream, 0o644)
			o, err := exec.Command(xzcli, "-dc", f).Output()
			if err != nil || !bytes.Equal(o, run.Data) {
				fail("xz-cli-rejects", fmt.Sprintf("xz -dc: %v (%d bytes)", err, len(o)))
			}
			os.Remove(f)
			c.Count("xz_cli_checked", 1)
		}
		ks := ""
		for _, n := range []string{"LRND", "LRN", "LR", "L", "rawD", "raw"} {
			if kinds[n] {
				ks += n + "+"
			}
		}
		bc := "1"
		if len(s.Blocks) > 1 {
			bc = "n"
		}
		c.Eval(k.class()+"|"+ks+"|b"+bc, len(run.Data) > 0)
		c.Count("ops_literal", int64(st.Lits))
		c.Count("ops_match", int64(st.Matches))
		c.Count("ops_shortrep", int64(st.ShortReps))
		c.Count("ops_rep0", int64(st.Reps[0]))
		c.Count("ops_rep1to3", int64(st.Reps[1]+st.Reps[2]+st.Reps[3]))
		c.Count("blocks", int64(len(s.Blocks)))
		c.Count("streams_judged", 1)
		maxMu.Lock()
		if st.MaxDist > maxDist {
			maxDist = st.MaxDist
		}
		maxMu.Unlock()
		if i%97 == 0 {
			c.Sample(map[string]any{"case": k.desc(), "stream_bytes": len(stream), "blocks": len(s.Blocks), "chunk_kinds": ks, "max_distance": st.MaxDist, "dict_code": s.Blocks[0].DictCode})
		}
	})
}

func errClass(err error) string {
	s := err.Error()
	for i := 0; i < len(s); i++ {
		if s[i] >= '0' && s[i] <= '9' {
			return s[:i]
		}
	}
	return s
}
