package main

import (
	"bytes"
	"fmt"
	"strings"

	"github.com/ulikunitz/xz/lzma"

	"verif/internal/ev"
	"verif/internal/gen"
	"verif/internal/lzc"
	"verif/internal/mon"
	"verif/internal/prng"
	"verif/internal/ref"
)

func init() { register("C16", "exploration", checkC16) }

var chunkKinds6 = []string{"raw", "rawD", "L", "LR", "LRN", "LRND"}

// legalPrefix is the specification automaton of the LZMA2 chunk discipline: it
// returns the number of chunks that are legal (len(seq) if all are).
func legalPrefix(seq []string) int {
	needDict, needProps := true, true
	for i, k := range seq {
		switch k {
		case "rawD":
			needDict, needProps = false, true
		case "raw":
			if needDict {
				return i
			}
		case "L", "LR":
			if needDict || needProps {
				return i
			}
		case "LRN":
			if needDict {
				return i
			}
			needProps = false
		case "LRND":
			needDict, needProps = false, false
		}
	}
	return len(seq)
}

// realiseSeq builds a concrete chunk stream for a kind sequence (legal or not).
// Payloads are tiny but depend on properties, position and dictionary content.
func realiseSeq(r *prng.R, seq []string, withEnd bool) (stream []byte, contents [][]byte) {
	return realiseSeqBulk(r, seq, withEnd, false)
}

// realiseSeqBulk: with bulk, payloads are drawn from tiny up to thousands of operations and
// uncompressed chunks up to 64 KiB, so that the 4 KiB dictionary has been filled and wrapped
// around before a later reset, literals follow bytes with every context, and matches reach as
// far back as the data since the last dictionary reset allows.
func realiseSeqBulk(r *prng.R, seq []string, withEnd, bulk bool) (stream []byte, contents [][]byte) {
	w := &ref.Window{DictSize: 4096}
	var enc *ref.Encoder
	for _, k := range seq {
		start := len(w.Out)
		if k == "raw" || k == "rawD" {
			if k == "rawD" {
				w.DictStart = len(w.Out)
			}
			n := r.Range(1, 3)
			if bulk {
				n = r.Pick(1, 3, 500, 5000, 4096, 65536)
			}
			b := make([]byte, n)
			r.Bytes(b)
			w.Out = append(w.Out, b...)
			stream = append(stream, ref.LZMA2RawHeader(k == "rawD", n)...)
			stream = append(stream, b...)
			contents = append(contents, b)
			continue
		}
		switch k {
		case "LRN", "LRND":
			lc := r.Intn(5)
			p := ref.Props{LC: lc, LP: r.Intn(5 - lc), PB: r.Intn(5)}
			if k == "LRND" {
				w.DictStart = len(w.Out)
			}
			enc = ref.NewEncoder(ref.NewModel(p), w)
		case "LR":
			if enc == nil {
				enc = ref.NewEncoder(ref.NewModel(ref.Props{LC: 3, LP: 0, PB: 2}), w)
			}
			enc.M.Reset()
		default:
			if enc == nil {
				enc = ref.NewEncoder(ref.NewModel(ref.Props{LC: 3, LP: 0, PB: 2}), w)
			}
		}
		enc.Restart()
		nops := r.Range(1, 3)
		if bulk {
			nops = r.Pick(1, 3, 40, 600, 2500, 6000)
		}
		for j := 0; j < nops; j++ {
			var op ref.Op
			switch r.Intn(4) {
			case 0:
				op = ref.Op{Kind: ref.OpMatch, Dist: uint32(r.Range(1, 4)), Len: r.Range(2, 5)}
				if avail := len(w.Out) - w.DictStart; bulk && avail > 4 && r.Bool() {
					// as far back as legal: the oldest byte since the reset, or of the window
					if avail > 4096 {
						avail = 4096
					}
					op.Dist = uint32(r.Pick(avail, avail, avail-1, r.Range(1, avail)))
					op.Len = r.Pick(2, 5, 30, 273)
				}
			case 1:
				op = ref.Op{Kind: ref.OpRep0 + ref.OpKind(r.Intn(2)), Len: r.Range(2, 4)}
			case 2:
				op = ref.Op{Kind: ref.OpShortRep}
			default:
				op = ref.Op{Kind: ref.OpLit, Byte: byte(r.U64())}
			}
			if enc.Valid(op) != nil {
				op = ref.Op{Kind: ref.OpLit, Byte: byte(r.U64())}
			}
			enc.Put(op)
		}
		body := enc.Finish()
		stream = append(stream, ref.LZMA2ChunkHeader(k, len(w.Out)-start, len(body), enc.M.P)...)
		stream = append(stream, body...)
		contents = append(contents, append([]byte(nil), w.Out[start:]...))
	}
	if withEnd {
		stream = append(stream, 0)
	}
	return
}

func readLZMA2(stream []byte, dict int) (out []byte, err error, pn *mon.Panic) {
	pn = mon.Guard(func() {
		var r *lzma.Reader2
		r, err = lzma.Reader2Config{DictCap: dict}.NewReader2(bytes.NewReader(stream))
		if err != nil {
			err = fmt.Errorf("open: %w", err)
			return
		}
		out, err = readVaried(r, stream, uint64(dict))
	})
	return
}

func checkC16(c *ev.Ctx) {
	L := 5
	nwriter := 200
	if thorough(c) {
		L = 7
		nwriter = 4000
	}
	c.SetRule(fmt.Sprintf("reader: every sequence over the 6 non-terminal chunk kinds of length 0..%d, each with and without the end chunk (exhaustive), realised by the reference encoder as a concrete stream with 1-3 operation payloads and fed to lzma.Reader2; expected verdict from a two-flag specification automaton; plus all 256 control bytes as first and as second chunk. writer: chunk headers of lzma.Writer2 outputs under random Write/Flush histories checked against the automaton and the 64 KiB / 2 MiB / 64 KiB limits. distinct non-trivial = distinct (kind sequence, end?) and distinct control byte positions", L))
	c.Assume("legality is defined by the automaton in legalPrefix(): first chunk must reset the dictionary; first LZMA chunk after a dictionary reset must carry properties; control 0x03-0x7f invalid")
	// enumerate sequences
	var seqs [][]string
	var rec func(cur []string)
	rec = func(cur []string) {
		seqs = append(seqs, append([]string(nil), cur...))
		if len(cur) == L {
			return
		}
		for _, k := range chunkKinds6 {
			rec(append(cur, k))
		}
	}
	rec(nil)
	c.Set("sequences_enumerated", 2*len(seqs))
	c.Set("max_sequence_length", L)
	c.Exhaustive(true)
	c.Set("exhaustive_part", fmt.Sprintf("chunk-kind sequences up to length %d (with and without end chunk) and all 256 control bytes in first and second position; payloads and the writer-side workload are sampled", L))
	judgeSeq := func(i int, seq []string, bulk int) {
		for e := 0; e < 2; e++ {
			withEnd := e == 1
			id := fmt.Sprintf("seq:%s:%d", strings.Join(seq, ","), e)
			if bulk > 0 {
				id = fmt.Sprintf("bulk%d:%s:%d", bulk, strings.Join(seq, ","), e)
			}
			noteCase(id)
			if !want(c, id) {
				continue
			}
			r := prng.New(c.Seed, 16, uint64(i), uint64(e), uint64(bulk))
			stream, contents := realiseSeqBulk(r, seq, withEnd, bulk > 0)
			lp := legalPrefix(seq)
			var wantOut []byte
			for _, b := range contents[:lp] {
				wantOut = append(wantOut, b...)
			}
			allLegal := lp == len(seq)
			// arbitration of the generator on the legal ones
			if allLegal {
				ro, info, rerr := ref.DecodeLZMA2(stream, 4096, !withEnd, 0)
				if rerr != nil || !bytes.Equal(ro, wantOut) || info.Ended != withEnd {
					c.Count("generator_rejected", 1)
					c.Inconclusive(fmt.Sprintf("reference disagrees with constructed legal sequence %s: %v", id, rerr))
					continue
				}
				if withEnd && lzc.Available() {
					res := lzc.DecodeRawLZMA2(stream, 4096, 0)
					if !res.OK() || !bytes.Equal(res.Out, wantOut) {
						c.Count("generator_rejected", 1)
						c.Inconclusive(fmt.Sprintf("liblzma disagrees with constructed legal sequence %s: %v", id, res.Err()))
						continue
					}
					c.Count("reference_agreement", 1)
				}
			}
			out, err, pn := readLZMA2(stream, 4096)
			det := map[string]any{"case_id": id, "sequence": seq, "with_end": withEnd, "legal_prefix": lp, "stream_hex": ev.Hex(stream, 1024),
				"expected_bytes_hex": ev.Hex(wantOut, 256), "got_bytes_hex": ev.Hex(out, 256), "got_error": fmt.Sprint(err)}
			if bulk > 0 {
				c.Count("bulky_payload_streams", 1)
				c.Count("bulky_payload_bytes", int64(len(wantOut)))
				c.Eval("bulk:"+strings.Join(seq, ","), true)
			} else {
				c.Eval(id, true)
			}
			switch {
			case pn != nil:
				det["what"] = "Reader2 panicked: " + pn.Value
				c.Violation("reader2-panic", det)
			case allLegal && withEnd:
				c.Count("legal_complete", 1)
				if err != nil || !bytes.Equal(out, wantOut) {
					det["what"] = fmt.Sprintf("legal sequence %v + end: Reader2 returned %d bytes, error %v; want %d bytes and clean end", seq, len(out), err, len(wantOut))
					c.Violation("legal-sequence-misdecoded", det)
				}
			case allLegal:
				c.Count("legal_unterminated", 1)
				if err == nil || !bytes.Equal(out, wantOut) {
					det["what"] = fmt.Sprintf("legal sequence %v without end chunk: Reader2 returned %d bytes (want %d), error %v (want a non-EOF error)", seq, len(out), len(wantOut), err)
					c.Violation("unterminated-sequence", det)
				}
			default:
				c.Count("illegal", 1)
				if err == nil {
					det["what"] = fmt.Sprintf("illegal sequence %v (chunk %d %q offends) accepted: %d bytes, clean end", seq, lp, seq[lp], len(out))
					c.Violation("illegal-sequence-accepted", det)
				} else if !bytes.Equal(out, wantOut) {
					det["what"] = fmt.Sprintf("illegal sequence %v (chunk %d %q offends): rejected with %v but %d bytes were delivered, the chunks before the offending one hold %d", seq, lp, seq[lp], err, len(out), len(wantOut))
					c.Violation("illegal-sequence-not-rejected-at-chunk", det)
				}
			}
			if i%500 == 7 && e == 1 {
				c.Sample(map[string]any{"sequence": seq, "with_end": withEnd, "legal_prefix": lp, "stream_hex": ev.Hex(stream, 200), "reader_error": fmt.Sprint(err), "bytes_out": len(out)})
			}
		}
	}
	par(len(seqs), func(i int) { judgeSeq(i, seqs[i], 0) })
	// the same sequences with bulky payloads (sampled): resets in the middle of the sequence
	// come after the dictionary has been filled
	nbulk := 2500
	if thorough(c) {
		nbulk = 60000
	}
	par(nbulk, func(k int) {
		r := prng.New(c.Seed, 161, uint64(k))
		i := r.Intn(len(seqs))
		if len(seqs[i]) < 2 {
			return
		}
		judgeSeq(i, seqs[i], 1+k)
	})
	// all 256 control bytes, first and second position
	par(512, func(i int) {
		cb := byte(i & 0xff)
		second := i >= 256
		id := fmt.Sprintf("ctl:%02x:%v", cb, second)
		noteCase(id)
		if !want(c, id) {
			return
		}
		r := prng.New(c.Seed, 17, uint64(i))
		w := &ref.Window{DictSize: 4096}
		var stream []byte
		var enc *ref.Encoder
		if second {
			enc = ref.NewEncoder(ref.NewModel(ref.Props{LC: 1, LP: 1, PB: 1}), w)
			enc.Put(ref.Op{Kind: ref.OpLit, Byte: byte(r.U64())})
			enc.Put(ref.Op{Kind: ref.OpLit, Byte: byte(r.U64())})
			body := enc.Finish()
			stream = append(stream, ref.LZMA2ChunkHeader("LRND", 2, len(body), enc.M.P)...)
			stream = append(stream, body...)
		}
		prefix := append([]byte(nil), w.Out...)
		kind, valid := ref.ChunkKind(cb)
		legal := valid
		if valid && !second {
			legal = kind == "end" || kind == "rawD" || kind == "LRND"
		}
		expect := append([]byte(nil), prefix...)
		switch {
		case !valid:
			stream = append(stream, cb, 0, 0, 0, 0, 0, 0, 0, 0)
		case kind == "end":
			stream = append(stream, 0)
		case kind == "raw" || kind == "rawD":
			if kind == "rawD" {
				w.DictStart = len(w.Out)
			}
			b := []byte{byte(r.U64()), byte(r.U64())}
			stream = append(stream, cb, 0, 1)
			stream = append(stream, b...)
			if legal {
				expect = append(expect, b...)
			}
			stream = append(stream, 0)
		default:
			// LZMA chunk whose uncompressed size has the high bits of the control byte
			unc := int(cb&0x1f)<<16 + r.Range(1, 300)
			if kind == "LRN" || kind == "LRND" || enc == nil {
				if kind == "LRND" {
					w.DictStart = len(w.Out)
				}
				enc = ref.NewEncoder(ref.NewModel(ref.Props{LC: 2, LP: 0, PB: 2}), w)
			} else if kind == "LR" {
				enc.M.Reset()
			}
			enc.Restart()
			start := len(w.Out)
			enc.Put(ref.Op{Kind: ref.OpLit, Byte: byte(r.U64())})
			for len(w.Out)-start < unc {
				l := unc - (len(w.Out) - start)
				if l > ref.MatchMaxLen {
					l = ref.MatchMaxLen
				}
				if l < 2 {
					enc.Put(ref.Op{Kind: ref.OpLit, Byte: byte(r.U64())})
				} else {
					enc.Put(ref.Op{Kind: ref.OpMatch, Dist: 1, Len: l})
				}
			}
			body := enc.Finish()
			h := ref.LZMA2ChunkHeader(kind, unc, len(body), enc.M.P)
			if h[0] != cb {
				c.Inconclusive(fmt.Sprintf("cannot realise control byte %02x (got %02x)", cb, h[0]))
				return
			}
			stream = append(stream, h...)
			stream = append(stream, body...)
			if legal {
				expect = append(expect, w.Out[start:]...)
			}
			stream = append(stream, 0)
		}
		out, err, pn := readLZMA2(stream, 4096)
		c.Eval(id, true)
		det := map[string]any{"case_id": id, "control": fmt.Sprintf("%#02x", cb), "second_position": second, "stream_hex": ev.Hex(stream, 256), "got_error": fmt.Sprint(err), "got_len": len(out), "want_len": len(expect)}
		switch {
		case pn != nil:
			det["what"] = "Reader2 panicked: " + pn.Value
			c.Violation("reader2-panic", det)
		case legal && (err != nil || !bytes.Equal(out, expect)):
			det["what"] = fmt.Sprintf("control byte %#02x (%s) at chunk %d is legal: got %d bytes / %v, want %d bytes and clean end", cb, kind, i>>8, len(out), err, len(expect))
			c.Violation("control-byte-legal-misdecoded", det)
		case !legal && err == nil:
			det["what"] = fmt.Sprintf("control byte %#02x at chunk %d is illegal but the stream was accepted (%d bytes)", cb, i>>8, len(out))
			c.Violation("control-byte-accepted", det)
		case !legal && !bytes.Equal(out, expect):
			det["what"] = fmt.Sprintf("control byte %#02x at chunk %d is illegal: rejected with %v but %d bytes delivered instead of %d", cb, i>>8, err, len(out), len(expect))
			c.Violation("control-byte-not-rejected-at-chunk", det)
		}
		if legal {
			c.Count("control_legal", 1)
		} else {
			c.Count("control_illegal", 1)
		}
	})
	// chunks at the format's size limits: a compressed chunk of exactly 65536 bytes (and a few
	// bytes less), which this library's writer never produces, followed by further chunks
	targets := []int{65536, 65535, 65534, 65533, 65530, 65280, 65537 - 256}
	par(len(targets), func(i int) {
		id := fmt.Sprintf("full%d", targets[i])
		noteCase(id)
		if !want(c, id) {
			return
		}
		var stream, content []byte
		ok := false
		for try := 0; try < 40 && !ok; try++ {
			stream, content, ok = ref.GenFullChunk(prng.New(c.Seed, 19, uint64(i), uint64(try)), targets[i], 4096)
		}
		if !ok {
			c.Inconclusive(fmt.Sprintf("no chunk of exactly %d compressed bytes could be generated", targets[i]))
			return
		}
		if ro, _, rerr := ref.DecodeLZMA2(stream, 4096, false, 0); rerr != nil || !bytes.Equal(ro, content) {
			c.Count("generator_rejected", 1)
			c.Inconclusive(fmt.Sprintf("generated full-chunk stream %s rejected by the reference: %v", id, rerr))
			return
		}
		if lzc.Available() {
			if res := lzc.DecodeRawLZMA2(stream, 4096, 0); !res.OK() || !bytes.Equal(res.Out, content) {
				c.Inconclusive(fmt.Sprintf("liblzma disagrees on generated full-chunk stream %s: %v", id, res.Err()))
				return
			}
			c.Count("reference_agreement", 1)
		}
		out, err, pn := readLZMA2(stream, 4096)
		c.Eval("full-chunk:"+id, true)
		c.Count("full_compressed_chunks", 1)
		if pn != nil || err != nil || !bytes.Equal(out, content) {
			c.Violation("legal-sequence-misdecoded", map[string]any{"case_id": id, "stream_len": len(stream), "content_len": len(content), "delivered": len(out), "error": fmt.Sprint(err),
				"what": fmt.Sprintf("legal sequence [LZMA chunk of exactly %d compressed bytes, raw, LZMA, end]: reader returned %d of %d bytes, error %v, panic %v", targets[i], len(out), len(content), err, pn)})
		}
	})
	// writer side
	par(nwriter, func(i int) {
		id := fmt.Sprintf("w%d", i)
		noteCase(id)
		if !want(c, id) {
			return
		}
		r := prng.New(c.Seed, 18, uint64(i))
		pp := lclp[r.Intn(len(lclp))]
		cfg := lzma.Writer2Config{Properties: &lzma.Properties{LC: pp[0], LP: pp[1], PB: r.Intn(5)}, DictCap: dictCaps[r.Intn(len(dictCaps))],
			BufSize: r.Pick(273, 4096, 65536), Matcher: lzma.MatchAlgorithm(r.Intn(2))}
		if i%67 == 3 {
			// the long single Write below is affordable only with the hash table matcher (the
			// binary tree is quadratic on runs of equal bytes); must be decided before the
			// writer is created
			cfg.Matcher = lzma.HashTable4
		}
		sink := mon.NewSink()
		var hist []string
		var werr error
		afterEnd := 0
		pn := mon.Guard(func() {
			w, err := cfg.NewWriter2(sink)
			if err != nil {
				werr = err
				return
			}
			ncalls := r.Range(1, 8)
			if i%67 == 3 {
				// one Write: >= 64 KiB incompressible, then far more than 2 MiB highly compressible
				ncalls = 0
				d := append(gen.Data(r, "random", r.Pick(66000, 68000, 80000)), make([]byte, 2<<20+300000)...)
				if _, err := w.Write(d); err != nil {
					werr = err
					return
				}
				hist = append(hist, fmt.Sprintf("Wrandom+zeros%d", len(d)))
			}
			for j := 0; j < ncalls; j++ {
				fam := []string{"random", "text", "zeros", "lowent", "random", "altseg"}[r.Intn(6)]
				n := r.Pick(0, 1, 100, 5000, 66000, 140000)
				if cfg.Matcher == lzma.BinaryTree && fam != "random" && fam != "text" && n > 12000 {
					n = 12000
				}
				if _, err := w.Write(gen.Data(r, fam, n)); err != nil {
					werr = err
					return
				}
				hist = append(hist, fmt.Sprintf("W%s%d", fam, n))
				if r.Chance(1, 3) {
					if err := w.Flush(); err != nil {
						werr = err
						return
					}
					hist = append(hist, "F")
				}
			}
			werr = w.Close()
			if werr == nil {
				// calls a careful program may still make (Close from a defer after an explicit
				// Close, a late Flush): they must not add chunks after the end chunk
				endLen := len(sink.Buf)
				w.Close()
				w.Flush()
				w.Write([]byte("late"))
				w.Close()
				if len(sink.Buf) != endLen {
					hist = append(hist, "C F W C after Close")
					afterEnd = len(sink.Buf) - endLen
				}
			}
		})
		if afterEnd > 0 {
			c.Violation("writer-illegal-sequence", map[string]any{"case_id": id, "history": hist, "dictcap": cfg.DictCap,
				"what": fmt.Sprintf("after the end chunk had been written, further Close/Flush/Write calls emitted %d more bytes (% x): chunks after the end of the stream", afterEnd, sink.Buf[len(sink.Buf)-afterEnd:])})
			return
		}
		if pn != nil {
			// the writer's own assertions about the chunk limits end as panics
			c.Violation("writer-panic:"+firstLine(pn.Value), map[string]any{"case_id": id, "history": hist, "dictcap": cfg.DictCap, "bufsize": cfg.BufSize,
				"what": "Writer2 panicked while building chunks: " + pn.Value, "stack": pn.Stack})
			return
		}
		if werr != nil {
			// judged by C08; here only emitted headers are of interest
			c.Count("writer_runs_with_error", 1)
		}
		chunks, _, err := ref.WalkLZMA2(sink.Buf)
		det := map[string]any{"case_id": id, "history": hist, "dictcap": cfg.DictCap, "bufsize": cfg.BufSize, "matcher": int(cfg.Matcher)}
		if err != nil && werr == nil && pn == nil {
			det["what"] = fmt.Sprintf("chunk headers of the writer output cannot be followed: %v", err)
			c.Violation("writer-chunk-structure", det)
			return
		}
		var seq []string
		for _, ch := range chunks {
			if ch.Kind != "end" {
				seq = append(seq, ch.Kind)
			}
			lim := ref.MaxLZMA2Unc
			if ch.Control < 0x80 {
				lim = ref.MaxLZMA2RawSz
			}
			if ch.Unc > lim || ch.Comp > ref.MaxLZMA2Comp {
				det["what"] = fmt.Sprintf("chunk %s with %d uncompressed / %d payload bytes exceeds the limits", ch.Kind, ch.Unc, ch.Comp)
				c.Violation("writer-chunk-limit", det)
			}
		}
		if lp := legalPrefix(seq); lp != len(seq) {
			det["what"] = fmt.Sprintf("writer emitted illegal chunk sequence %v (chunk %d)", seq, lp)
			c.Violation("writer-illegal-sequence", det)
		}
		set := map[string]bool{}
		for _, k := range seq {
			set[k] = true
		}
		cls := ""
		for _, k := range chunkKinds6 {
			if set[k] {
				cls += k + "+"
			}
		}
		c.Eval("writer:"+cls, len(seq) > 0)
		c.Count("writer_outputs", 1)
		c.Count("writer_chunks", int64(len(seq)))
		c.Count("writer_kindset:"+cls, 1)
	})
}
