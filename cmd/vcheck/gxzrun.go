package main

import (
	"bufio"
	"bytes"
	"encoding/json"
	"fmt"
	"os"
	"os/exec"
	"path/filepath"
	"sort"
	"strings"
	"syscall"

	"verif/internal/ev"
)

// sysEvent is one line of the sysstep log.
type sysEvent struct {
	I      int    `json:"i"`
	Sys    string `json:"sys"`
	FD     int    `json:"fd"`
	Path   string `json:"path"`
	Path2  string `json:"path2"`
	Ret    int64  `json:"ret"`
	Inject string `json:"inject"`
	// trailer
	Exit   *int `json:"exit"`
	Killed int  `json:"killed"`
	Count  int  `json:"count"`
}

type gxzResult struct {
	Events []sysEvent
	Exit   int
	Killed bool
	Count  int
	Stdout []byte
	Stderr string
	RunErr string
}

type inject struct {
	Mode    string // "", "kill-before", "kill-after", "fail"
	N       int
	Errno   int
	Persist bool
	Argv0   string // invoke gxz through a symbolic link of this name (xzcat, unxz, lzma, ...)
}

func (j inject) String() string {
	if j.Mode == "" {
		return "none"
	}
	if j.Mode == "signal" {
		return fmt.Sprintf("signal#%d signo=%d", j.N, j.Errno)
	}
	if j.Mode == "fail" {
		return fmt.Sprintf("fail#%d errno=%d persist=%v", j.N, j.Errno, j.Persist)
	}
	return fmt.Sprintf("%s#%d", j.Mode, j.N)
}

func gxzBinary() string           { return os.Getenv("VERIF_GXZ") }
func sysstepBin(c *ev.Ctx) string { return filepath.Join(c.WorkDir, "bin", "sysstep") }

// runGxz runs the gxz binary under the syscall stepper in dir.
func runGxz(c *ev.Ctx, dir string, args []string, inj inject, countStdout bool, stdin []byte) gxzResult {
	var res gxzResult
	logp := filepath.Join(dir, "..", filepath.Base(dir)+".syslog")
	a := []string{"-p", dir, "-r", "-o", logp}
	if countStdout {
		a = append(a, "-1")
	}
	switch inj.Mode {
	case "kill-before":
		a = append(a, "-k", fmt.Sprint(inj.N))
	case "kill-after":
		a = append(a, "-K", fmt.Sprint(inj.N))
	case "signal":
		a = append(a, "-s", fmt.Sprint(inj.N), fmt.Sprint(inj.Errno))
	case "fail":
		a = append(a, "-f", fmt.Sprint(inj.N), fmt.Sprint(inj.Errno))
		if inj.Persist {
			a = append(a, "-P")
		}
	}
	bin := gxzBinary()
	if inj.Argv0 != "" {
		// the program decides on its mode of operation by the name it is called by
		ad := filepath.Join(c.WorkDir, "bin", "alias-"+filepath.Base(bin))
		os.MkdirAll(ad, 0o755)
		ln := filepath.Join(ad, inj.Argv0)
		if _, err := os.Lstat(ln); err != nil {
			os.Symlink(bin, ln)
		}
		bin = ln
	}
	a = append(a, "--", bin)
	a = append(a, args...)
	cmd := exec.Command(sysstepBin(c), a...)
	cmd.Dir = dir
	// stdout goes to a regular file that is read afterwards: never a pipe that
	// could be closed early (no SIGPIPE for a -c run, see DESIGN 7a)
	outp := filepath.Join(dir, "..", filepath.Base(dir)+".stdout")
	of, err := os.Create(outp)
	if err != nil {
		res.RunErr = err.Error()
		return res
	}
	cmd.Stdout = of
	var eb bytes.Buffer
	cmd.Stderr = &eb
	if stdin != nil {
		cmd.Stdin = bytes.NewReader(stdin)
	}
	cmd.Env = append(os.Environ(), "GOMAXPROCS=2")
	if err := cmd.Run(); err != nil {
		res.RunErr = err.Error()
	}
	of.Close()
	res.Stdout, _ = os.ReadFile(outp)
	res.Stderr = eb.String()
	os.Remove(outp)
	f, err := os.Open(logp)
	if err != nil {
		res.RunErr += " no syscall log: " + err.Error()
		return res
	}
	sc := bufio.NewScanner(f)
	sc.Buffer(make([]byte, 1<<20), 1<<20)
	res.Exit = -1
	for sc.Scan() {
		var e sysEvent
		if json.Unmarshal(sc.Bytes(), &e) != nil {
			continue
		}
		if e.Exit != nil {
			res.Exit = *e.Exit
			res.Killed = e.Killed != 0
			res.Count = e.Count
			continue
		}
		res.Events = append(res.Events, e)
	}
	f.Close()
	os.Remove(logp)
	return res
}

// dirSnapshot maps file names to contents.
func dirSnapshot(dir string) map[string][]byte {
	m := map[string][]byte{}
	es, _ := os.ReadDir(dir)
	for _, e := range es {
		if e.IsDir() {
			m[e.Name()+"/"] = nil
			continue
		}
		b, err := os.ReadFile(filepath.Join(dir, e.Name()))
		if err == nil {
			m[e.Name()] = b
		}
	}
	return m
}

func snapNames(m map[string][]byte) []string {
	var n []string
	for k, v := range m {
		n = append(n, fmt.Sprintf("%s(%d)", k, len(v)))
	}
	sort.Strings(n)
	return n
}

func stdoutDevOK() bool {
	_, err := os.Lstat("/dev/stdout")
	return err == nil
}

func errnoFor(sys string) []int {
	switch sys {
	case "write", "pwrite64", "writev":
		return []int{int(syscall.ENOSPC), int(syscall.EIO)}
	case "read", "pread64":
		return []int{int(syscall.EIO)}
	case "close", "fsync":
		return []int{int(syscall.EIO)}
	case "rename", "renameat", "renameat2":
		return []int{int(syscall.EIO)}
	case "unlink", "unlinkat":
		return []int{int(syscall.EIO)}
	case "openat", "open", "creat":
		return []int{int(syscall.EACCES), int(syscall.ENOSPC)}
	case "newfstatat", "fstat", "lstat", "stat":
		return []int{int(syscall.EIO)}
	}
	return nil
}

func hasSuffixAny(s string, suf ...string) bool {
	for _, x := range suf {
		if strings.HasSuffix(s, x) {
			return true
		}
	}
	return false
}

// sysstepKnown is the set of syscalls the stepper counts (tools/sysstep.c).
var sysstepKnown = map[string]bool{"openat": true, "open": true, "creat": true, "read": true, "pread64": true, "write": true, "pwrite64": true,
	"writev": true, "close": true, "rename": true, "renameat": true, "renameat2": true, "unlink": true, "unlinkat": true, "fsync": true,
	"fdatasync": true, "ftruncate": true, "fchmod": true, "fchmodat": true, "chmod": true, "newfstatat": true, "fstat": true, "lstat": true,
	"stat": true, "truncate": true, "link": true, "linkat": true, "symlink": true, "symlinkat": true, "mkdir": true, "mkdirat": true,
	"rmdir": true, "chown": true, "lchown": true, "fchownat": true, "fchown": true, "utimensat": true, "fallocate": true,
	"copy_file_range": true, "sendfile": true, "statx": true}

// straceBenign are calls that mention a path or descriptor of the scenario directory but neither
// change nor read file content or names; the stepper need not count them.
var straceBenign = map[string]bool{"execve": true, "fcntl": true, "epoll_ctl": true, "lseek": true, "ioctl": true, "mmap": true,
	"getdents64": true, "faccessat": true, "faccessat2": true, "access": true, "readlink": true, "readlinkat": true, "chdir": true,
	"getcwd": true, "fadvise64": true, "flock": true}

// straceNames runs gxz under strace (-f -y: descriptors are printed with their paths) and
// returns the names of all file and descriptor syscalls whose line mentions dir, in order.
func straceNames(dir string, args []string) ([]string, error) {
	st, err := exec.LookPath("strace")
	if err != nil {
		return nil, err
	}
	logp := filepath.Join(dir, "..", filepath.Base(dir)+".strace")
	defer os.Remove(logp)
	outp := filepath.Join(dir, "..", filepath.Base(dir)+".stdout")
	of, err := os.Create(outp)
	if err != nil {
		return nil, err
	}
	defer os.Remove(outp)
	a := append([]string{"-f", "-y", "-qq", "-e", "trace=%file,%desc", "-o", logp, gxzBinary()}, args...)
	cmd := exec.Command(st, a...)
	cmd.Dir = "/" // -y prints AT_FDCWD with the working directory: keep dir out of unrelated lines
	cmd.Stdout = of
	cmd.Env = append(os.Environ(), "GOMAXPROCS=2")
	runErr := cmd.Run()
	of.Close()
	b, err := os.ReadFile(logp)
	if err != nil {
		return nil, fmt.Errorf("strace: %v / %v", runErr, err)
	}
	var names []string
	for _, ln := range strings.Split(string(b), "\n") {
		if !strings.Contains(ln, dir) {
			continue
		}
		f := strings.Fields(ln)
		if len(f) < 2 {
			continue
		}
		i := strings.IndexByte(f[1], '(')
		if i <= 0 {
			continue // "<... x resumed>" lines carry no arguments
		}
		names = append(names, f[1][:i])
	}
	return names, nil
}

// runGxzPlain runs gxz directly (no stepper) in dir: exit status, stderr and stdout only.
func runGxzPlain(c *ev.Ctx, dir string, args []string) gxzResult {
	var res gxzResult
	cmd := exec.Command(gxzBinary(), args...)
	cmd.Dir = dir
	outp := filepath.Join(dir, "..", filepath.Base(dir)+".stdout")
	of, err := os.Create(outp)
	if err != nil {
		res.RunErr = err.Error()
		return res
	}
	cmd.Stdout = of
	var eb bytes.Buffer
	cmd.Stderr = &eb
	cmd.Env = append(os.Environ(), "GOMAXPROCS=2")
	res.Exit = -1
	err = cmd.Run()
	of.Close()
	res.Stdout, _ = os.ReadFile(outp)
	os.Remove(outp)
	res.Stderr = eb.String()
	if cmd.ProcessState != nil && cmd.ProcessState.Exited() {
		res.Exit = cmd.ProcessState.ExitCode()
	} else if err != nil {
		res.RunErr = err.Error()
	}
	return res
}
