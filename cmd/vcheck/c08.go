package main

import (
	"bytes"
	"fmt"
	"io"
	"os"
	"path/filepath"
	"strings"

	"github.com/ulikunitz/xz/lzma"

	"verif/internal/ev"
	"verif/internal/gen"
	"verif/internal/lzc"
	"verif/internal/mon"
	"verif/internal/prng"
	"verif/internal/ref"
)

func init() { register("C08", "exploration", checkC08) }

type w2call struct {
	Op   byte // 'W','F','C'
	Fam  string
	N    int
	Seed uint64
}

func (k w2call) String() string {
	if k.Op == 'W' {
		return fmt.Sprintf("W(%s,%d)", k.Fam, k.N)
	}
	return string(k.Op)
}

// w2History draws one call history for the LZMA2 writer.
func w2History(r *prng.R, matcher int, special int) []w2call {
	var h []w2call
	wr := func(fam string, n int) {
		if matcher == 1 && fam != "random" && fam != "text" && n > 12000 {
			n = 30000
		}
		h = append(h, w2call{Op: 'W', Fam: fam, N: n, Seed: r.U64()})
	}
	switch special {
	case 1: // flush around the 2 MiB uncompressed chunk limit (highly compressible data)
		wr("zeros", 1<<21+r.Pick(-1, 0, 1))
		h = append(h, w2call{Op: 'F'})
		wr("text", 100)
		h = append(h, w2call{Op: 'F'}, w2call{Op: 'F'})
	case 2: // flush around the 64 KiB compressed chunk limit (incompressible data)
		wr("random", 65536+r.Pick(-1500, -800, -1, 0, 1, 3))
		h = append(h, w2call{Op: 'F'})
		wr("text", 3000)
		h = append(h, w2call{Op: 'F'})
		wr("random", 70000)
	case 4: // one Write: incompressible head (>= 64 KiB), then far beyond the 2 MiB chunk limit of zeros
		h = append(h, w2call{Op: 'W', Fam: "randzeros", N: 2<<20 + 400000 + r.Intn(1000), Seed: r.U64()})
		h = append(h, w2call{Op: 'F'})
	case 5: // several chunks of noise in one Write (every chunk ends at the 64 KiB compressed limit with look-ahead pending)
		wr("random", 200000+r.Intn(5000))
		h = append(h, w2call{Op: 'F'})
		wr("text", 500)
	case 3: // compressible / incompressible alternation with flushes in between
		for i := 0; i < 4; i++ {
			wr([]string{"text", "random", "lowent", "random"}[i], r.Pick(2000, 70000, 9000))
			if r.Bool() {
				h = append(h, w2call{Op: 'F'})
			}
		}
	default:
		if special == 900 {
			// a writer that lives long: thousands of tiny messages, each followed by Flush
			for m := 0; m < 1200; m++ {
				h = append(h, w2call{Op: 'W', Fam: []string{"text", "random", "one"}[m%3], N: 1 + (m*7)%23, Seed: r.U64()}, w2call{Op: 'F'})
			}
			break
		}
		if special == 901 {
			// a dictionary of 64 MiB and data with one pair of markers for every distance
			// slot such a window can use (up to 48 MiB + 1000), a Flush, a few more bytes
			h = append(h, w2call{Op: 'W', Fam: "farmarks", N: 64<<20 + 4000 + r.Intn(100), Seed: r.U64()}, w2call{Op: 'F'},
				w2call{Op: 'W', Fam: "text", N: 1000, Seed: r.U64()})
			break
		}
		if special >= 2000 && special < 3000 {
			// literals that compress to three quarters, then - (special-2000) bytes in front of the
			// 64 KiB compressed-size limit of the first chunk - a run of up to 120 bytes held
			// back by the range coder (see gen "carry:"): the space the writer reserves at the
			// end of a chunk has to cover what the coder has not emitted yet
			h = append(h, w2call{Op: 'W', Fam: fmt.Sprintf("carry:302:%d:120:%s:64", -(65536 - (special - 2000)), []string{"c", "n"}[special%2]), Seed: r.U64()})
			if r.Bool() {
				h = append(h, w2call{Op: 'F'})
			}
			wr("text", 500)
			break
		}
		if special >= 1000 && special < 2000 {
			// a little more than one chunk of data that is very nearly incompressible: sweeps
			// the decision between a compressed and an uncompressed chunk
			h = append(h, w2call{Op: 'W', Fam: fmt.Sprintf("thinrep:%d", 3*(special-1000)), N: 65600 + 100*(special%7), Seed: r.U64()}, w2call{Op: 'F'})
			wr("text", 2000)
			break
		}
		if special >= 64000 {
			// one maximally expensive operation at a given offset near the end of the first
			// noise chunk (see gen "chunkedge"): the margin the writer keeps below the 64 KiB
			// compressed chunk limit must cover it wherever it falls
			h = append(h, w2call{Op: 'W', Fam: fmt.Sprintf("chunkedge:%d", special), N: 6<<20 + 70000, Seed: r.U64()})
			if r.Bool() {
				h = append(h, w2call{Op: 'F'})
			}
			break
		}
		n := r.Range(1, 14)
		for i := 0; i < n; i++ {
			switch r.Intn(10) {
			case 0, 1, 2:
				h = append(h, w2call{Op: 'F'})
			default:
				fam := gen.Families[r.Intn(len(gen.Families))]
				wr(fam, r.Pick(0, 1, 2, 100, 273, 4096, 5000, 30000, 66000, 150000, r.Range(0, 3000)))
			}
		}
	}
	h = append(h, w2call{Op: 'C'})
	// calls after Close
	for i := r.Range(1, 3); i > 0; i-- {
		switch r.Intn(3) {
		case 0:
			h = append(h, w2call{Op: 'W', Fam: "text", N: r.Pick(0, 5), Seed: 1})
		case 1:
			h = append(h, w2call{Op: 'F'})
		default:
			h = append(h, w2call{Op: 'C'})
		}
	}
	return h
}

func checkC08(c *ev.Ctx) {
	c.SetRule("call histories over {Write(p), Flush, Close} for lzma.Writer2 (1-14 calls before Close plus 1-3 calls after it; payload families and lengths 0..2 MiB; special histories placing Flush at +-1 around the 64 KiB compressed and 2 MiB uncompressed chunk limits and between compressible/incompressible payloads) x Writer2Config (all lc/lp/pb with lc+lp<=4, DictCap 4096..1 MiB, BufSize 273..65536, both matchers). At every successful Flush the sink prefix is decoded by the reference decoder in open mode and by lzma.Reader2; after Close by Reader2, the strict reference and liblzma. distinct non-trivial = distinct (history shape string | dict class | bufsize | matcher | chunk kinds emitted)")
	c.Assume("sequential reference model: W = concatenation of all bytes accepted by Write so far", "internal/ref and liblzma as LZMA2 decoders")
	n := 1500
	nedge, nthin := 80, 100
	if thorough(c) {
		n = 12000
		nedge = 400 // five different noise seeds per offset
	}
	nhist := n
	// appended behind the n histories: the sweep of a held-back run across the end of the first
	// chunk (ncarry offsets) and the history with the 64 MiB dictionary
	ncarry := 32
	c.MinEvals(int64(n / 2))
	defaultCtors(c, "lzma2")
	npair := 32
	par(n+ncarry+1+npair, func(i int) {
		id := fmt.Sprintf("h%d", i)
		noteCase(id)
		if !want(c, id) {
			return
		}
		r := prng.New(c.Seed, 8, uint64(i))
		pp := lclp[r.Intn(len(lclp))]
		matcher := r.Intn(2)
		cfg := lzma.Writer2Config{Properties: &lzma.Properties{LC: pp[0], LP: pp[1], PB: r.Intn(5)},
			DictCap: dictCaps[r.Intn(len(dictCaps))], BufSize: r.Pick(273, 274, 300, 4096, 65536), Matcher: lzma.MatchAlgorithm(matcher)}
		if i%8 == 5 {
			// any lc 0..8 / lp 0..4: only configurations the library's own Verify accepts are in
			// the quantifier (for LZMA2 that must mean lc+lp <= 4)
			cfg.Properties = &lzma.Properties{LC: r.Intn(9), LP: r.Intn(5), PB: r.Intn(5)}
			pp = [2]int{cfg.Properties.LC, cfg.Properties.LP}
			vc := cfg
			if err := vc.Verify(); err != nil {
				c.Count("configs_rejected_by_verify", 1)
				return
			}
			c.Count("configs_from_full_lclp_space_accepted", 1)
		}
		special := 0
		edgeSeed := uint64(0)
		if i%25 < 4 {
			special = i%25 + 0
			if special == 0 {
				special = 3
				if i%100 == 0 {
					special = 4
					matcher = 0
					cfg.Matcher = lzma.HashTable4
				}
			}
			if special == 1 {
				matcher = 0
				cfg.Matcher = lzma.HashTable4
			}
		}
		if i == nhist-nedge-nthin-1 || (thorough(c) && i%3000 == 77) {
			special = 900
		}
		if ce := i - nhist; ce >= 0 && ce < ncarry {
			special, matcher = 2000+4*ce, 0
			cfg.Matcher, cfg.DictCap, cfg.BufSize = lzma.HashTable4, 1<<20, []int{4096, 273, 65536}[ce%3]
			pp = [2]int{3, 0}
			cfg.Properties = &lzma.Properties{LC: 3, LP: 0, PB: 2}
		}
		if i == nhist+ncarry {
			special, matcher = 901, 0
			cfg.Matcher, cfg.DictCap, cfg.BufSize = lzma.HashTable4, 64<<20, 4096
		}
		if pr := i - (nhist + ncarry + 1); pr >= 0 && pr < npair {
			// a dictionary smaller than one chunk of noise together with a look-ahead buffer that
			// makes dictionary + buffer end a little above the length of such a chunk (round 16):
			// whether a chunk may be stored depends on what the dictionary still holds, not on
			// what the ring could hold
			special, matcher = 5, pr%2
			cfg.Matcher = lzma.MatchAlgorithm(pr % 2)
			cfg.DictCap = []int{4096, 16384, 32768, 49152}[(pr/2)%4]
			cfg.BufSize = 64584 + []int{0, 60, 184, 700}[(pr/8)%4] - cfg.DictCap
		}
		if thin := i - (nhist - nedge - nthin); thin >= 0 && thin < nthin {
			special, matcher = 1000+thin, thin%2
			cfg.Matcher, cfg.DictCap, cfg.BufSize = lzma.MatchAlgorithm(thin%2), []int{1 << 20, 1 << 17, 8 << 20}[thin%3], 4096
		}
		if edge := i - (nhist - nedge); edge >= 0 && edge < nedge {
			// the last nedge histories sweep one expensive operation across the end of a chunk
			// (same data and properties for all offsets of a sweep, so that the end of the chunk
			// is at the same place in all of them)
			special, matcher = 64575+edge%80, 0
			cfg.Matcher, cfg.DictCap, cfg.BufSize = lzma.HashTable4, 8<<20, 4096
			pp = [2]int{3, 0}
			cfg.Properties = &lzma.Properties{LC: 3, LP: 0, PB: 2}
			edgeSeed = c.Seed*1000 + uint64(edge/80) + 1
		}
		hist := w2History(r, matcher, special)
		if edgeSeed != 0 {
			for k := range hist {
				if hist[k].Op == 'W' && hist[k].N > 1<<20 {
					hist[k].Seed = edgeSeed
				}
			}
		}
		var shape []string
		for _, k := range hist {
			shape = append(shape, k.String())
		}
		det := map[string]any{"case_id": id, "history": shape, "lc": pp[0], "lp": pp[1], "pb": cfg.Properties.PB, "dictcap": cfg.DictCap, "bufsize": cfg.BufSize, "matcher": matcher}
		sink := mon.NewSink()
		var W []byte
		viol := func(sig, what string) {
			det["what"] = what
			det["sink_len"] = len(sink.Buf)
			det["sink_head"] = ev.Hex(sink.Buf, 200)
			c.Violation(sig, det)
		}
		closed := false
		pendingSinceFlush := false
		flushes := 0
		pn := mon.Guard(func() {
			// configuration lifecycle (by case index): literal; verified and used with other
			// values before; Properties changed by the caller after NewWriter2 returned
			var pv *lzma.Properties
			switch i % 7 {
			case 3:
				final := cfg
				cfg = lzma.Writer2Config{DictCap: 4096, Properties: &lzma.Properties{LC: 1, LP: 1, PB: 1}}
				cfg.Verify()
				if w0, err := cfg.NewWriter2(io.Discard); err == nil {
					w0.Write([]byte("earlier stream"))
					w0.Close()
				}
				cfg.Properties, cfg.DictCap, cfg.Matcher = final.Properties, final.DictCap, final.Matcher
				if final.BufSize != 0 {
					cfg.BufSize = final.BufSize
				}
			case 5:
				v := *cfg.Properties
				pv = &v
				cfg.Properties = pv
			}
			// what the writer is connected to: the recording sink, or (every ninth history and the
			// histories that flush at the 2 MiB chunk limit) a real *os.File, whose content is
			// copied into the recording sink after every call
			var target io.Writer = sink
			refresh := func() {}
			if special == 1 || i%9 == 7 {
				dir := filepath.Join(c.WorkDir, "tmp")
				os.MkdirAll(dir, 0o755)
				if f, ferr := os.CreateTemp(dir, "sink-*"); ferr == nil {
					os.Remove(f.Name())
					defer f.Close()
					target = f
					det["sink"] = "*os.File"
					c.Count("histories_into_a_real_file", 1)
					refresh = func() {
						if st, e := f.Stat(); e == nil && st.Size() > int64(len(sink.Buf)) {
							b := make([]byte, st.Size()-int64(len(sink.Buf)))
							if _, e := f.ReadAt(b, int64(len(sink.Buf))); e == nil {
								sink.Buf = append(sink.Buf, b...)
							}
						}
					}
				}
			}
			w, err := cfg.NewWriter2(target)
			if err != nil {
				viol("newwriter2-error", fmt.Sprintf("NewWriter2 failed for a configuration passing Verify: %v", err))
				return
			}
			if pv != nil {
				*pv = lzma.Properties{LC: (pv.LC + 1) % 3, LP: (pv.LP + 1) % 2, PB: (pv.PB + 2) % 5}
			}
			for ci, k := range hist {
				before := len(sink.Buf)
				switch k.Op {
				case 'W':
					p := gen.Data(prng.New(k.Seed, 1), k.Fam, k.N)
					n, err := callerWrite(w, p, k.Seed>>3+uint64(ci))
					refresh()
					if closed {
						if n != 0 || err == nil || len(sink.Buf) != before {
							viol("after-close", fmt.Sprintf("call %d Write after Close returned (%d, %v), emitted %d bytes", ci, n, err, len(sink.Buf)-before))
						}
						continue
					}
					if n != len(p) || err != nil {
						viol("write-error", fmt.Sprintf("call %d %v returned (%d, %v)", ci, k, n, err))
						return
					}
					W = append(W, p...)
					if len(p) > 0 {
						pendingSinceFlush = true
					}
				case 'F':
					err := w.Flush()
					refresh()
					if closed {
						if err == nil || len(sink.Buf) != before {
							viol("after-close", fmt.Sprintf("call %d Flush after Close returned %v, emitted %d bytes", ci, err, len(sink.Buf)-before))
						}
						continue
					}
					if err != nil {
						viol("flush-error", fmt.Sprintf("call %d Flush returned %v", ci, err))
						return
					}
					if !pendingSinceFlush && len(sink.Buf) != before {
						viol("flush-nothing-pending-emits", fmt.Sprintf("call %d Flush with nothing pending emitted %d bytes", ci, len(sink.Buf)-before))
					}
					pendingSinceFlush = false
					flushes++
					// the prefix must decode to exactly W
					ro, info, rerr := ref.DecodeLZMA2(sink.Buf, int64(cfg.DictCap), true, 0)
					if rerr != nil || info.Ended || !bytes.Equal(ro, W) {
						viol("flush-prefix-ref", fmt.Sprintf("after Flush (call %d) the %d sink bytes do not decode (reference, open mode) to the %d bytes written: err=%v ended=%v decoded=%d firstdiff=%d", ci, len(sink.Buf), len(W), rerr, info.Ended, len(ro), firstDiff(ro, W)))
						return
					}
					lo, lerr, lpn := readLZMA2(sink.Buf, cfg.DictCap)
					if lpn != nil {
						viol("flush-prefix-reader2-panic", "Reader2 panicked on flushed prefix: "+lpn.Value)
						return
					}
					if !bytes.Equal(lo, W) || lerr == nil {
						viol("flush-prefix-reader2", fmt.Sprintf("after Flush (call %d) Reader2 yields %d bytes (written %d, first difference %d), error %v (want all bytes, then an error for the missing end chunk)", ci, len(lo), len(W), firstDiff(lo, W), lerr))
						return
					}
					c.Count("flush_points_checked", 1)
				case 'C':
					err := w.Close()
					refresh()
					if closed {
						if err == nil || len(sink.Buf) != before {
							viol("after-close", fmt.Sprintf("call %d Close after Close returned %v, emitted %d bytes", ci, err, len(sink.Buf)-before))
						}
						continue
					}
					if err != nil {
						viol("close-error", fmt.Sprintf("Close returned %v", err))
						return
					}
					closed = true
					ro, info, rerr := ref.DecodeLZMA2(sink.Buf, int64(cfg.DictCap), false, 0)
					if rerr != nil || !info.Ended || info.Consumed != len(sink.Buf) || !bytes.Equal(ro, W) {
						viol("final-ref", fmt.Sprintf("after Close the reference decoder: err=%v ended=%v consumed=%d/%d decoded=%d/%d firstdiff=%d", rerr, info.Ended, info.Consumed, len(sink.Buf), len(ro), len(W), firstDiff(ro, W)))
						return
					}
					lo, lerr, lpn := readLZMA2(sink.Buf, cfg.DictCap)
					if lpn != nil || lerr != nil || !bytes.Equal(lo, W) {
						viol("final-reader2", fmt.Sprintf("after Close Reader2: panic=%v err=%v decoded=%d/%d firstdiff=%d", lpn != nil, lerr, len(lo), len(W), firstDiff(lo, W)))
						return
					}
					if lzc.Available() {
						res := lzc.DecodeRawLZMA2(sink.Buf, uint32(cfg.DictCap), 0)
						if !res.OK() || !bytes.Equal(res.Out, W) {
							viol("final-liblzma", fmt.Sprintf("after Close liblzma raw LZMA2 decoder (dict %d): %v, %d/%d bytes", cfg.DictCap, res.Err(), len(res.Out), len(W)))
							return
						}
						c.Count("reference_agreement", 1)
					}
					kinds := map[string]bool{}
					for _, ch := range info.Chunks {
						kinds[ch.Kind] = true
					}
					det["kinds"] = kinds
				}
			}
		})
		if pn != nil {
			det["stack"] = pn.Stack
			viol("writer2-panic:"+firstLine(pn.Value), "Writer2 panicked: "+pn.Value)
		}
		ks := ""
		if m, ok := det["kinds"].(map[string]bool); ok {
			for _, k := range chunkKinds6 {
				if m[k] {
					ks += k + "+"
				}
			}
		}
		if special >= 2000 && special < 3000 {
			noteCarry(c, "carry:", sink.Buf)
		}
		sh := strings.Join(shapeOnly(hist), "")
		c.Eval(fmt.Sprintf("%s|d%s|b%d|m%d|%s", sh, sizeClass(cfg.DictCap), cfg.BufSize, matcher, ks), len(W) > 0)
		c.Count("histories", 1)
		c.Count("calls", int64(len(hist)))
		c.Count("kindset:"+ks, 1)
		if i%83 == 0 {
			c.Sample(map[string]any{"history": shape, "dictcap": cfg.DictCap, "bufsize": cfg.BufSize, "matcher": matcher, "bytes_written": len(W), "sink_bytes": len(sink.Buf), "chunk_kinds": ks, "flushes_checked": flushes})
		}
	})
}

func shapeOnly(h []w2call) []string {
	var s []string
	for _, k := range h {
		if k.Op == 'W' {
			if k.N == 0 {
				s = append(s, "w")
			} else {
				s = append(s, "W")
			}
		} else {
			s = append(s, string(k.Op))
		}
	}
	return s
}
