package main

import (
	"bytes"
	"encoding/binary"
	"fmt"
	"hash/crc32"
	"os"
	"path/filepath"
	"sort"
	"strings"

	"github.com/ulikunitz/xz"
	"github.com/ulikunitz/xz/lzma"

	"verif/internal/ev"
	"verif/internal/gen"
	"verif/internal/prng"
	"verif/internal/ref"
)

func init() { register("C04", "exploration", checkC04) }

type xzSeed struct {
	Multi   bool // several streams: only the universal part applies
	ID      string
	B       []byte
	Content []byte
	S       ref.XZStream
	Check   byte
	Feat    string
}

func c04Seeds(c *ev.Ctx) []xzSeed {
	r := prng.New(c.Seed, 4)
	var out []xzSeed
	add := func(id string, b, content []byte, feat string) {
		o, ss, err := ref.DecodeXZ(b, 0)
		if err != nil || len(ss) != 1 || ss[0].PaddingAfter != 0 || !bytes.Equal(o, content) {
			c.Inconclusive(fmt.Sprintf("seed %s is not a valid single stream for the reference: %v", id, err))
			return
		}
		out = append(out, xzSeed{ID: id, B: b, Content: content, S: ss[0], Check: ss[0].Check, Feat: feat})
	}
	n := 12
	maxLen := 600
	if thorough(c) {
		n = 120
		maxLen = 2000
	}
	checks := []byte{xz.CRC32, xz.CRC64, xz.SHA256, 0}
	for i := 0; i < n; i++ {
		fam := []string{"text", "lowent", "random", "altseg"}[i%4]
		data := gen.Data(r, fam, r.Range(20, maxLen))
		cfg := xz.WriterConfig{DictCap: 4096, BlockSize: int64(r.Pick(0, 100, 64, 0)), Matcher: lzma.MatchAlgorithm(i % 2)}
		if i%3 == 1 {
			cfg.BlockSize = int64(len(data)/3 + 1)
		}
		ck := checks[i%4]
		if ck == 0 {
			cfg.NoCheckSum = true
		} else {
			cfg.CheckSum = ck
		}
		b := libWriteXZ(cfg, data)
		if len(b) > 0 && len(b) < 3000 {
			add(fmt.Sprintf("lib%d", i), b, data, fmt.Sprintf("library %s bs=%d check=%d", fam, cfg.BlockSize, ck))
		}
	}
	// xz-utils written seeds (multi-block with size fields among them)
	for i := 0; i < n/2+1; i++ {
		rr := prng.New(c.Seed, 41, uint64(i))
		for try := 0; try < 30; try++ {
			stream, content, feat := genXZContainer(rr, false)
			_, ss, err := ref.DecodeXZ(stream, 0)
			if err == nil && len(ss) == 1 && ss[0].PaddingAfter == 0 && len(stream) < 1200 && len(ss[0].Blocks) > 0 && len(content) > 0 {
				add(fmt.Sprintf("gen%d", i), stream, content, clipStr(feat, 160))
				break
			}
		}
	}
	// multi-stream seeds (universal part only): damage behind the first stream
	for i := 0; i < 3; i++ {
		d1, d2 := gen.Data(r, "text", r.Range(50, 300)), gen.Data(r, "lowent", r.Range(50, 300))
		b := libWriteXZ(xz.WriterConfig{DictCap: 4096, CheckSum: xz.CRC32}, d1)
		b = append(b, make([]byte, []int{0, 4, 12}[i])...)
		b = append(b, libWriteXZ(xz.WriterConfig{DictCap: 4096, CheckSum: xz.CRC64}, d2)...)
		if i == 2 {
			b = append(b, make([]byte, 8)...) // trailing padding
		}
		content := append(append([]byte{}, d1...), d2...)
		if o, ss, err := ref.DecodeXZ(b, 0); err == nil && len(ss) == 2 && bytes.Equal(o, content) {
			out = append(out, xzSeed{Multi: true, ID: fmt.Sprintf("multi%d", i), B: b, Content: content, S: ss[0], Check: ss[0].Check, Feat: "two streams"})
		}
	}
	names, _ := loadCorpus(c, "xz")
	cn := 0
	for _, nme := range names {
		b, err := os.ReadFile(filepath.Join(c.Dir, "corpus", nme))
		if err != nil || len(b) > 1600 || len(b) < 40 {
			continue
		}
		content, ss, err := ref.DecodeXZ(b, 0)
		if err != nil || len(ss) != 1 || len(ss[0].Blocks) == 0 || ss[0].Blocks[0].DictSize > 1<<20 {
			continue
		}
		cn++
		if !thorough(c) && cn > 2 {
			break
		}
		add("corpus:"+nme, b, content, "xz-utils")
	}
	return out
}

// pieces of a parsed stream, for reassembly after a field edit
type xzPieces struct {
	hdr   []byte
	bh    [][]byte
	data  [][]byte
	pad   [][]byte
	chk   [][]byte
	recs  [][2]int64
	idx   []byte
	foot  []byte
	check byte
	s     ref.XZStream
}

func splitXZ(sd xzSeed) xzPieces {
	b, s := sd.B, sd.S
	p := xzPieces{hdr: append([]byte(nil), b[s.Off:s.Off+12]...), check: s.Check, s: s}
	cs := ref.CheckSize(s.Check)
	for _, bl := range s.Blocks {
		p.bh = append(p.bh, append([]byte(nil), b[bl.HeaderOff:bl.HeaderOff+bl.HeaderSize]...))
		p.data = append(p.data, append([]byte(nil), b[bl.DataOff:bl.DataOff+bl.CompLen]...))
		p.pad = append(p.pad, make([]byte, bl.PadLen))
		p.chk = append(p.chk, append([]byte(nil), b[bl.CheckOff:bl.CheckOff+cs]...))
	}
	p.recs = append(p.recs, s.Records...)
	p.idx = append([]byte(nil), b[s.IndexOff:s.FooterOff]...)
	p.foot = append([]byte(nil), b[s.FooterOff:s.End]...)
	return p
}

func (p *xzPieces) assemble() []byte {
	var o []byte
	o = append(o, p.hdr...)
	for i := range p.bh {
		o = append(o, p.bh[i]...)
		o = append(o, p.data[i]...)
		o = append(o, p.pad[i]...)
		o = append(o, p.chk[i]...)
	}
	o = append(o, p.idx...)
	o = append(o, p.foot...)
	return o
}

// resealIndexFooter recomputes index and footer from p.recs so that they are
// consistent with the (possibly resized) block headers.
func (p *xzPieces) resealIndexFooter() {
	p.idx = ref.IndexBytes(p.recs, -1, 0)
	p.foot = ref.StreamFooter(int64(len(p.idx)), 0, p.check)
}

type xzEdit struct {
	Name     string
	Make     func(p *xzPieces, bi int) bool // false: edit not applicable to this stream/block
	PerBlock bool
}

func blockSpec(p *xzPieces, bi int) ref.BlockHeaderSpec {
	bl := p.s.Blocks[bi]
	sp := ref.LZMA2BlockHeader(bl.CompField, bl.UncField, bl.DictCode)
	if bl.HeaderPad >= 4 {
		sp.ExtraPad = bl.HeaderPad / 4
	}
	return sp
}

func setBH(p *xzPieces, bi int, sp ref.BlockHeaderSpec) {
	nb := sp.Bytes()
	p.recs[bi][0] += int64(len(nb) - len(p.bh[bi]))
	p.bh[bi] = nb
	p.resealIndexFooter()
}

func c04Edits() []xzEdit {
	bhEdit := func(name string, f func(sp *ref.BlockHeaderSpec, p *xzPieces, bi int) bool) xzEdit {
		return xzEdit{Name: name, PerBlock: true, Make: func(p *xzPieces, bi int) bool {
			sp := blockSpec(p, bi)
			if !f(&sp, p, bi) {
				return false
			}
			setBH(p, bi, sp)
			return true
		}}
	}
	idxEdit := func(name string, f func(p *xzPieces) bool) xzEdit {
		return xzEdit{Name: name, Make: func(p *xzPieces, _ int) bool { return f(p) }}
	}
	var e []xzEdit
	e = append(e,
		xzEdit{Name: "stream-header-reserved-byte", Make: func(p *xzPieces, _ int) bool { p.hdr = ref.StreamHeader(1, p.check); return true }},
		xzEdit{Name: "stream-header-reserved-bits", Make: func(p *xzPieces, _ int) bool { p.hdr = ref.StreamHeader(0, p.check|0x10); return true }},
	)
	for _, id := range []byte{2, 3, 5, 9, 0xb, 0xf} {
		id := id
		e = append(e, xzEdit{Name: fmt.Sprintf("unsupported-check-id-%d", id), Make: func(p *xzPieces, _ int) bool {
			if ref.CheckSize(id) != ref.CheckSize(p.check) {
				return false // keep the layout parseable: same check size
			}
			p.hdr = ref.StreamHeader(0, id)
			p.foot = ref.StreamFooter(int64(len(p.idx)), 0, id)
			return true
		}})
	}
	for _, bit := range []byte{0x04, 0x08, 0x10, 0x20} {
		bit := bit
		e = append(e, bhEdit(fmt.Sprintf("block-reserved-flag-%#02x", bit), func(sp *ref.BlockHeaderSpec, _ *xzPieces, _ int) bool { sp.FlagsOr = bit; return true }))
	}
	e = append(e,
		bhEdit("block-filter-count-2", func(sp *ref.BlockHeaderSpec, _ *xzPieces, _ int) bool { sp.FlagsOr = 1; return true }),
		bhEdit("block-filter-id-delta", func(sp *ref.BlockHeaderSpec, _ *xzPieces, _ int) bool { sp.FilterID = 0x03; return true }),
		bhEdit("block-filter-id-unknown", func(sp *ref.BlockHeaderSpec, _ *xzPieces, _ int) bool { sp.FilterID = 0x22; return true }),
		bhEdit("block-filter-id-reserved", func(sp *ref.BlockHeaderSpec, _ *xzPieces, _ int) bool { sp.FilterID = 1 << 62; return true }),
		bhEdit("block-filter-props-size-2", func(sp *ref.BlockHeaderSpec, _ *xzPieces, _ int) bool {
			sp.PropsSize = 2
			sp.Props = append(sp.Props, 0)
			return true
		}),
		bhEdit("block-filter-props-size-0", func(sp *ref.BlockHeaderSpec, _ *xzPieces, _ int) bool { sp.PropsSize = 0; sp.Props = nil; return true }),
		bhEdit("block-dict-code-41", func(sp *ref.BlockHeaderSpec, _ *xzPieces, _ int) bool { sp.Props = []byte{41}; return true }),
		bhEdit("block-dict-code-bit6", func(sp *ref.BlockHeaderSpec, _ *xzPieces, _ int) bool {
			sp.Props = []byte{sp.Props[0] | 0x40}
			return true
		}),
		bhEdit("block-dict-code-bit7", func(sp *ref.BlockHeaderSpec, _ *xzPieces, _ int) bool {
			sp.Props = []byte{sp.Props[0] | 0x80}
			return true
		}),
		bhEdit("block-dict-code-255", func(sp *ref.BlockHeaderSpec, _ *xzPieces, _ int) bool { sp.Props = []byte{255}; return true }),
		bhEdit("block-header-padding-nonzero", func(sp *ref.BlockHeaderSpec, _ *xzPieces, _ int) bool {
			sp.PadByte = 1
			if len(sp.Bytes()) == len((&ref.BlockHeaderSpec{Comp: sp.Comp, Unc: sp.Unc, FilterID: sp.FilterID, PropsSize: sp.PropsSize, Props: sp.Props, ExtraPad: sp.ExtraPad}).Bytes()) {
				// make sure at least one padding byte exists
				probe := *sp
				probe.PadByte = 0
				if bytes.Equal(probe.Bytes(), sp.Bytes()) {
					sp.ExtraPad++
				}
			}
			return true
		}),
		bhEdit("block-compressed-size-plus1", func(sp *ref.BlockHeaderSpec, p *xzPieces, bi int) bool {
			sp.Comp = int64(p.s.Blocks[bi].CompLen) + 1
			return true
		}),
		bhEdit("block-compressed-size-minus1", func(sp *ref.BlockHeaderSpec, p *xzPieces, bi int) bool {
			sp.Comp = int64(p.s.Blocks[bi].CompLen) - 1
			return sp.Comp > 0
		}),
		bhEdit("block-uncompressed-size-plus1", func(sp *ref.BlockHeaderSpec, p *xzPieces, bi int) bool {
			sp.Unc = int64(p.s.Blocks[bi].UncLen) + 1
			return true
		}),
		bhEdit("block-uncompressed-size-minus1", func(sp *ref.BlockHeaderSpec, p *xzPieces, bi int) bool {
			sp.Unc = int64(p.s.Blocks[bi].UncLen) - 1
			return sp.Unc >= 0
		}),
		bhEdit("block-uncompressed-size-2^63", func(sp *ref.BlockHeaderSpec, _ *xzPieces, _ int) bool { sp.Unc63 = true; return true }),
		bhEdit("block-compressed-size-2^63", func(sp *ref.BlockHeaderSpec, _ *xzPieces, _ int) bool { sp.Comp63 = true; return true }),
		xzEdit{Name: "block-padding-nonzero", PerBlock: true, Make: func(p *xzPieces, bi int) bool {
			if len(p.pad[bi]) == 0 {
				return false
			}
			p.pad[bi][len(p.pad[bi])-1] = 1
			return true
		}},
		xzEdit{Name: "block-padding-nonzero-first", PerBlock: true, Make: func(p *xzPieces, bi int) bool {
			if len(p.pad[bi]) < 2 {
				return false
			}
			p.pad[bi][0] = 0x80
			return true
		}},
		xzEdit{Name: "block-check-wrong", PerBlock: true, Make: func(p *xzPieces, bi int) bool {
			if len(p.chk[bi]) == 0 {
				return false
			}
			p.chk[bi][len(p.chk[bi])/2] ^= 0x10
			return true
		}},
		idxEdit("index-count-plus1", func(p *xzPieces) bool {
			p.idx = ref.IndexBytes(p.recs, int64(len(p.recs))+1, 0)
			p.foot = ref.StreamFooter(int64(len(p.idx)), 0, p.check)
			return true
		}),
		idxEdit("index-count-minus1", func(p *xzPieces) bool {
			p.idx = ref.IndexBytes(p.recs, int64(len(p.recs))-1, 0)
			p.foot = ref.StreamFooter(int64(len(p.idx)), 0, p.check)
			return true
		}),
		idxEdit("index-records-minus1", func(p *xzPieces) bool {
			if len(p.recs) < 2 {
				return false
			}
			p.idx = ref.IndexBytes(p.recs[:len(p.recs)-1], -1, 0)
			p.foot = ref.StreamFooter(int64(len(p.idx)), 0, p.check)
			return true
		}),
		idxEdit("index-records-plus1", func(p *xzPieces) bool {
			p.idx = ref.IndexBytes(append(append([][2]int64{}, p.recs...), p.recs[len(p.recs)-1]), -1, 0)
			p.foot = ref.StreamFooter(int64(len(p.idx)), 0, p.check)
			return true
		}),
	)
	for _, d := range []int64{-4, -1, 1, 4} {
		d := d
		e = append(e, xzEdit{Name: fmt.Sprintf("index-unpadded-size%+d", d), PerBlock: true, Make: func(p *xzPieces, bi int) bool {
			p.recs[bi][0] += d
			p.resealIndexFooter()
			return true
		}})
	}
	for _, d := range []int64{-1, 1} {
		d := d
		e = append(e, xzEdit{Name: fmt.Sprintf("index-uncompressed-size%+d", d), PerBlock: true, Make: func(p *xzPieces, bi int) bool {
			if p.recs[bi][1]+d < 0 {
				return false
			}
			p.recs[bi][1] += d
			p.resealIndexFooter()
			return true
		}})
	}
	// edits of two records that keep every sum unchanged (a reader that only compares totals
	// would accept them)
	e = append(e,
		xzEdit{Name: "index-records-swapped", PerBlock: true, Make: func(p *xzPieces, bi int) bool {
			if bi+1 >= len(p.recs) || p.recs[bi] == p.recs[bi+1] {
				return false
			}
			p.recs[bi], p.recs[bi+1] = p.recs[bi+1], p.recs[bi]
			p.resealIndexFooter()
			return true
		}},
		xzEdit{Name: "index-unpadded-size-shifted", PerBlock: true, Make: func(p *xzPieces, bi int) bool {
			if bi+1 >= len(p.recs) || p.recs[bi][0] < 8 {
				return false
			}
			p.recs[bi][0] -= 4
			p.recs[bi+1][0] += 4
			p.resealIndexFooter()
			return true
		}},
		xzEdit{Name: "index-uncompressed-size-shifted", PerBlock: true, Make: func(p *xzPieces, bi int) bool {
			if bi+1 >= len(p.recs) || p.recs[bi][1] < 1 {
				return false
			}
			p.recs[bi][1]--
			p.recs[bi+1][1]++
			p.resealIndexFooter()
			return true
		}},
		xzEdit{Name: "index-sizes-exchanged-between-fields", PerBlock: true, Make: func(p *xzPieces, bi int) bool {
			// unpadded +4 on one record, -4 on the last one; uncompressed the other way round
			l := len(p.recs) - 1
			if bi >= l || p.recs[l][0] < 8 || p.recs[bi][1] < 1 {
				return false
			}
			p.recs[bi][0] += 4
			p.recs[l][0] -= 4
			p.recs[bi][1]--
			p.recs[l][1]++
			p.resealIndexFooter()
			return true
		}},
	)
	e = append(e, xzEdit{Name: "blocks-exchanged-index-kept", PerBlock: true, Make: func(p *xzPieces, bi int) bool {
		// two neighbouring blocks of different sizes change places, the index stays: every
		// block is intact, only the comparison of the records in order can object
		if bi+1 >= len(p.recs) || p.recs[bi] == p.recs[bi+1] {
			return false
		}
		p.bh[bi], p.bh[bi+1] = p.bh[bi+1], p.bh[bi]
		p.data[bi], p.data[bi+1] = p.data[bi+1], p.data[bi]
		p.pad[bi], p.pad[bi+1] = p.pad[bi+1], p.pad[bi]
		p.chk[bi], p.chk[bi+1] = p.chk[bi+1], p.chk[bi]
		return true
	}})
	e = append(e,
		idxEdit("index-padding-nonzero", func(p *xzPieces) bool {
			n := ref.IndexBytes(p.recs, -1, 1)
			if bytes.Equal(n, p.idx) {
				return false // no padding bytes in this index
			}
			p.idx = n
			return true
		}),
		idxEdit("index-indicator-nonzero", func(p *xzPieces) bool {
			p.idx[0] = 1
			binary.LittleEndian.PutUint32(p.idx[len(p.idx)-4:], crc32.ChecksumIEEE(p.idx[:len(p.idx)-4]))
			return true
		}),
		idxEdit("index-crc-wrong", func(p *xzPieces) bool { p.idx[len(p.idx)-1] ^= 1; return true }),
		idxEdit("footer-backward-size-plus1", func(p *xzPieces) bool { p.foot = ref.StreamFooter(int64(len(p.idx))+4, 0, p.check); return true }),
		idxEdit("footer-backward-size-minus1", func(p *xzPieces) bool {
			if len(p.idx) < 8 {
				return false
			}
			p.foot = ref.StreamFooter(int64(len(p.idx))-4, 0, p.check)
			return true
		}),
		idxEdit("footer-flags-differ", func(p *xzPieces) bool {
			o := byte(xz.CRC32)
			if p.check == xz.CRC32 {
				o = xz.CRC64
			}
			p.foot = ref.StreamFooter(int64(len(p.idx)), 0, o)
			return true
		}),
		idxEdit("footer-reserved-byte", func(p *xzPieces) bool { p.foot = ref.StreamFooter(int64(len(p.idx)), 1, p.check); return true }),
		idxEdit("footer-magic", func(p *xzPieces) bool { p.foot[11] = 'z'; return true }),
		idxEdit("footer-crc-wrong", func(p *xzPieces) bool { p.foot[0] ^= 0x40; return true }),
		idxEdit("header-magic", func(p *xzPieces) bool { p.hdr[5] = 1; return true }),
		idxEdit("header-crc-wrong", func(p *xzPieces) bool { p.hdr[9] ^= 2; return true }),
	)
	return e
}

func checkC04(c *ev.Ctx) {
	c.SetRule("seed streams (library-, generator- and xz-utils-written, single and multi block, all check types incl. none) x modifications: every single-bit flip, one burst of 2..32 bits at every start byte, a byte insertion and a byte deletion at every offset, deletion of every range between two structural boundaries (universal part: never clean EOF with different content, streams with a check), and ~50 classes of field-level edits with CRC32s re-sealed so only the targeted cross-check can object, on every block/record (must-error part, also for check-less streams). distinct non-trivial = distinct (seed, modification) pairs evaluated")
	c.Assume("the structural mutator re-seals CRC32 fields with the stdlib CRC32; seeds are valid for internal/ref")
	seeds := c04Seeds(c)
	c.Set("seeds", len(seeds))
	edits := c04Edits()
	c.Set("edit_classes", len(edits))
	type job struct {
		seed *xzSeed
		kind string
		arg  int
		bi   int
	}
	var jobs []job
	for i := range seeds {
		s := &seeds[i]
		for ei, e := range edits {
			if s.Multi {
				break
			}
			nb := 1
			if e.PerBlock {
				nb = len(s.S.Blocks)
			}
			for bi := 0; bi < nb; bi++ {
				jobs = append(jobs, job{s, "edit", ei, bi})
			}
		}
		if !s.Multi {
			// every single-bit flip inside a CRC32-protected field, with that CRC32 re-sealed
			for _, rg := range sealRegions(s) {
				for bit := 8 * rg.from; bit < 8*rg.to; bit++ {
					jobs = append(jobs, job{s, "sealflip", bit, 0})
				}
			}
		}
		if s.Check == 0 {
			continue
		}
		for bit := 0; bit < 8*len(s.B); bit++ {
			jobs = append(jobs, job{s, "flip", bit, 0})
		}
		for off := 0; off < len(s.B); off++ {
			jobs = append(jobs, job{s, "burst", off, 0}, job{s, "delete", off, 0}, job{s, "insert", off, 0}, job{s, "truncate", off, 0})
		}
		jobs = append(jobs, job{s, "insert", len(s.B), 0})
		// deletion of whole structural ranges (between any two boundaries)
		bnd := xzBounds(s.B)
		sort.Ints(bnd)
		var ub []int
		for _, b := range bnd {
			if len(ub) == 0 || ub[len(ub)-1] != b {
				ub = append(ub, b)
			}
		}
		for a := 0; a < len(ub); a++ {
			for b := a + 1; b < len(ub); b++ {
				if ub[b]-ub[a] > 1 {
					jobs = append(jobs, job{s, "delrange", ub[a], ub[b]})
				}
			}
		}
	}
	c04Many(c, edits)
	c.MinEvals(int64(len(jobs) / 2))
	par(len(jobs), func(i int) {
		j := jobs[i]
		s := j.seed
		id := fmt.Sprintf("%s:%s:%d:%d", s.ID, j.kind, j.arg, j.bi)
		noteCase(id)
		if !want(c, id) {
			return
		}
		var mod []byte
		name := j.kind
		switch j.kind {
		case "flip":
			mod = append([]byte(nil), s.B...)
			mod[j.arg/8] ^= 1 << uint(j.arg%8)
		case "sealflip":
			mod = append([]byte(nil), s.B...)
			mod[j.arg/8] ^= 1 << uint(j.arg%8)
			for _, rg := range sealRegions(s) {
				if j.arg/8 >= rg.from && j.arg/8 < rg.to {
					binary.LittleEndian.PutUint32(mod[rg.crcAt:], crc32.ChecksumIEEE(mod[rg.crcFrom:rg.crcTo]))
					name = "sealflip:" + rg.name
				}
			}
		case "burst":
			r := prng.New(c.Seed, 44, uint64(i))
			mod = append([]byte(nil), s.B...)
			nbits := r.Range(2, 32)
			startBit := j.arg*8 + r.Intn(8)
			for k := 0; k < nbits; k++ {
				bit := startBit + k
				if bit/8 >= len(mod) {
					break
				}
				if k == 0 || k == nbits-1 || r.Bool() {
					mod[bit/8] ^= 1 << uint(bit%8)
				}
			}
		case "delete":
			mod = append(append([]byte(nil), s.B[:j.arg]...), s.B[j.arg+1:]...)
		case "truncate": // deletion of everything from this offset on
			mod = append([]byte(nil), s.B[:j.arg]...)
		case "delrange":
			mod = append(append([]byte(nil), s.B[:j.arg]...), s.B[j.bi:]...)
		case "insert":
			r := prng.New(c.Seed, 45, uint64(i))
			v := byte(r.U64())
			if r.Bool() && j.arg > 0 {
				v = s.B[j.arg-1]
			}
			mod = append(append(append([]byte(nil), s.B[:j.arg]...), v), s.B[j.arg:]...)
		case "edit":
			p := splitXZ(*s)
			e := edits[j.arg]
			name = "edit:" + e.Name
			if !e.Make(&p, j.bi) {
				c.Count("edits_not_applicable", 1)
				return
			}
			mod = p.assemble()
			if bytes.Equal(mod, s.B) {
				c.Count("edits_not_applicable", 1)
				return
			}
		}
		// the same modified stream is read under several schedules of buffer lengths: like
		// io.ReadAll, one byte at a time, and with buffers that end exactly at the block ends
		scheds := []struct {
			name string
			l    []int
		}{{"readall", nil}, {"one-byte", []int{1}}, {"io.Copy", []int{-1}}}
		if j.kind == "edit" || j.kind == "sealflip" {
			var ex []int
			for _, bl := range s.S.Blocks {
				if bl.UncLen > 0 {
					ex = append(ex, bl.UncLen)
				}
			}
			scheds = append(scheds, struct {
				name string
				l    []int
			}{"block-exact", append(ex, 1<<16)})
		}
		// ... and from one of the concrete source types of production (structure-changing
		// modifications always, bit flips and bursts every fourth)
		if j.kind != "flip" && j.kind != "burst" && j.kind != "sealflip" || i%4 == 0 {
			kinds := []string{"bufio4096", "file", "bufio16", "pipe", "bufio-exact", "pipe0"}
			scheds = append(scheds, struct {
				name string
				l    []int
			}{"source:" + kinds[(i+j.arg)%len(kinds)], nil})
		}
		for si, sc := range scheds {
			if c04Judge(c, s, j.kind, j.arg, j.bi, id, name, mod, sc.name, sc.l, si == 0, edits) {
				break
			}
		}
		if i%9973 == 0 {
			c.Sample(map[string]any{"seed": s.ID, "modification": name, "arg": j.arg, "read_schedules": len(scheds)})
		}
	})
}

// c04Many applies the per-record edits to streams of more than 65536 tiny blocks, at records
// before, at and after positions 2^16 and at the very end: whatever a reader keeps per block
// (a list, a counter, a running sum) is compared with the index record by record for the
// whole stream, not only for the first so many.
func c04Many(c *ev.Ctx, edits []xzEdit) {
	nv := 1
	if thorough(c) {
		nv = 3
	}
	for v := 0; v < nv; v++ {
		r := prng.New(c.Seed, 46, uint64(v))
		ck := []byte{xz.CRC32, 0, xz.CRC64}[v]
		cfg := xz.WriterConfig{DictCap: 4096, CheckSum: ck}
		if ck == 0 {
			cfg = xz.WriterConfig{DictCap: 4096, NoCheckSum: true}
		}
		var tp []xzPieces
		var tc [][]byte
		for _, content := range []string{"ab", "cdefg"} {
			b := libWriteXZ(cfg, []byte(content))
			o, ss, err := ref.DecodeXZ(b, 0)
			if err != nil || len(ss) != 1 || len(ss[0].Blocks) != 1 || string(o) != content {
				c.Inconclusive(fmt.Sprintf("many-blocks template is not a one-block stream: %v", err))
				return
			}
			tp = append(tp, splitXZ(xzSeed{B: b, S: ss[0]}))
			tc = append(tc, []byte(content))
		}
		n := 65536 + r.Range(3, 3000)
		big := xzPieces{hdr: tp[0].hdr, check: ck}
		var content []byte
		for k := 0; k < n; k++ {
			t := r.Intn(2)
			big.bh, big.data, big.pad, big.chk = append(big.bh, tp[t].bh[0]), append(big.data, tp[t].data[0]), append(big.pad, tp[t].pad[0]), append(big.chk, tp[t].chk[0])
			big.recs = append(big.recs, tp[t].recs[0])
			content = append(content, tc[t]...)
		}
		big.resealIndexFooter()
		all := big.assemble()
		o, ss, err := ref.DecodeXZ(all, 0)
		if err != nil || len(ss) != 1 || !bytes.Equal(o, content) {
			c.Inconclusive(fmt.Sprintf("many-blocks seed is not valid for the reference: %v", err))
			return
		}
		seed := &xzSeed{ID: fmt.Sprintf("many%d", v), B: all, Content: content, S: ss[0], Check: ck, Feat: fmt.Sprintf("%d blocks of 2 or 5 bytes, check %d", n, ck)}
		if lo, lerr := libXZ(all, xz.ReaderConfig{DictCap: 4096}); lerr != nil || !bytes.Equal(lo, content) {
			c.Inconclusive(fmt.Sprintf("the unmodified stream of %d blocks is not decoded by the library (judged by C03): %v", n, lerr))
			return
		}
		c.Count("many_block_streams", 1)
		pos := []int{0, 1, 65533, 65534, 65535, 65536, 65537, n - 2, n - 3, r.Intn(n - 1), r.Intn(65000), 65536 + r.Intn(n-65537)}
		type mj struct{ ei, bi int }
		var jobs []mj
		for ei, e := range edits {
			if !e.PerBlock || !(strings.HasPrefix(e.Name, "index-") || e.Name == "blocks-exchanged-index-kept") {
				continue
			}
			for _, bi := range pos {
				// the next position at which the two neighbouring records differ
				for bi+1 < n && big.recs[bi] == big.recs[bi+1] {
					bi++
				}
				if bi+1 < n {
					jobs = append(jobs, mj{ei, bi})
				}
			}
		}
		par(len(jobs), func(i int) {
			j := jobs[i]
			e := edits[j.ei]
			id := fmt.Sprintf("%s:edit:%d:%d", seed.ID, j.ei, j.bi)
			noteCase(id)
			if !want(c, id) {
				return
			}
			q := big
			q.recs = append([][2]int64(nil), big.recs...)
			q.bh, q.data = append([][]byte(nil), big.bh...), append([][]byte(nil), big.data...)
			q.pad, q.chk = append([][]byte(nil), big.pad...), append([][]byte(nil), big.chk...)
			if !e.Make(&q, j.bi) {
				c.Count("edits_not_applicable", 1)
				return
			}
			c.Count("many_block_edits", 1)
			c04Judge(c, seed, "edit", j.ei, j.bi, id, "edit:"+e.Name, q.assemble(), "readall", nil, true, edits)
		})
	}
}

// sealRegion is a byte range [from,to) of a seed protected by the CRC32 stored at crcAt over
// [crcFrom,crcTo).
type sealRegion struct {
	name                            string
	from, to, crcAt, crcFrom, crcTo int
}

// sealRegions lists the CRC32-protected fields of a single-stream seed: stream flags, every block
// header (without the LZMA2 dictionary-size byte: a smaller declared dictionary is no
// inconsistency of redundant metadata, and its illegal values have their own edit classes),
// the index and the footer fields.
func sealRegions(s *xzSeed) []sealRegion {
	st := s.S
	o := st.Off
	rs := []sealRegion{{"stream-flags", o + 6, o + 8, o + 8, o + 6, o + 8}}
	for _, b := range st.Blocks {
		h, e := b.HeaderOff, b.HeaderOff+b.HeaderSize-4
		// position of the filter properties byte: size byte, flags, optional sizes, id 0x21, props size 1
		pp := -1
		for k := h + 2; k+2 < e; k++ {
			if s.B[k] == 0x21 && s.B[k+1] == 0x01 && int(s.B[k+2]) == int(b.DictCode) {
				pp = k + 2
			}
		}
		if pp < 0 {
			rs = append(rs, sealRegion{"block-header", h, e, e, h, e})
			continue
		}
		rs = append(rs, sealRegion{"block-header", h, pp, e, h, e}, sealRegion{"block-header", pp + 1, e, e, h, e})
	}
	rs = append(rs, sealRegion{"index", st.IndexOff, st.FooterOff - 4, st.FooterOff - 4, st.IndexOff, st.FooterOff - 4})
	f := st.FooterOff
	rs = append(rs, sealRegion{"footer", f + 4, f + 10, f, f + 4, f + 10})
	return rs
}

// c04Judge reads one modified stream under one schedule of buffer lengths and applies the
// oracle; it returns true when a violation was reported (further schedules are skipped).
func c04Judge(c *ev.Ctx, s *xzSeed, kind string, arg, bi int, id, name string, mod []byte, schedName string, sched []int, first bool, edits []xzEdit) (violated bool) {
	srcKind := ""
	if strings.HasPrefix(schedName, "source:") {
		srcKind = schedName[len("source:"):]
	}
	out, cerr, rerr, after, pn := openReadSchedAfter("xz", mod, 0, sched, srcKind)
	if first {
		c.Eval(id, true)
		c.Count("mod:"+classOf(name), 1)
	}
	c.Count("reads:"+schedName, 1)
	viol := func(sig string, det map[string]any) {
		violated = true
		det["read_schedule"] = schedName
		c.Violation(sig, det)
	}
	func() {
		j := struct {
			kind    string
			arg, bi int
		}{kind, arg, bi}
		det := map[string]any{"case_id": id, "seed": s.ID, "seed_features": s.Feat, "modification": name, "arg": j.arg, "block": j.bi,
			"original_hex": ev.Hex(s.B, 1600), "modified_hex": ev.Hex(mod, 1600), "ctor_error": fmt.Sprint(cerr), "read_error": fmt.Sprint(rerr), "delivered": len(out), "content_len": len(s.Content)}
		if pn != nil {
			det["what"] = "reader panicked on a damaged stream: " + pn.Value
			viol("panic-on-damaged", det)
			return
		}
		clean := cerr == nil && rerr == nil
		if after != "" && (s.Check != 0 || j.kind == "edit" || j.kind == "sealflip") {
			// the damage was reported, but a caller that reads on is then told that the stream
			// ended regularly (or is given more data): a clean end after wrong content
			det["what"] = fmt.Sprintf("%s at %d: %s; %d bytes had been delivered (content %d bytes, equal=%v)", name, j.arg, after, len(out), len(s.Content), bytes.Equal(out, s.Content))
			viol("error-then-clean-end:"+classOf(name), det)
			return
		}
		if j.kind == "sealflip" {
			// The flipped field is consistent with its CRC32 again, so only a cross-check against
			// the rest of the stream can object.  If the strict reference still accepts the file
			// with the same content the flip produced another valid file (e.g. a larger declared
			// dictionary) and nothing is demanded; otherwise the metadata is inconsistent.
			// (Integers in a longer than the shortest encoding are not among the inconsistencies the
			// statement lists - the values stay the same - so the judge tolerates them.)
			if ro, _, e := ref.DecodeXZLenient(mod, 0); e == nil && bytes.Equal(ro, s.Content) {
				c.Count("sealflip_yields_valid_file", 1)
				return
			}
			if clean {
				det["what"] = fmt.Sprintf("%s: bit %d of byte %d flipped and the covering CRC32 re-sealed; the reference rejects the file, the reader reports a clean end after %d bytes (content %d bytes, equal=%v)", name, j.arg%8, j.arg/8, len(out), len(s.Content), bytes.Equal(out, s.Content))
				viol("edit-accepted:"+name, det)
			} else {
				c.Count("sealflips_rejected", 1)
			}
			return
		}
		if j.kind == "edit" {
			if clean {
				det["what"] = fmt.Sprintf("metadata edit %q (block %d), CRC32s re-sealed, is not reported: clean end after %d bytes (content %d bytes, equal=%v)", name, j.bi, len(out), len(s.Content), bytes.Equal(out, s.Content))
				viol("edit-accepted:"+edits[j.arg].Name, det)
			} else {
				c.Count("edits_rejected", 1)
			}
			return
		}
		if clean && !bytes.Equal(out, s.Content) && s.Multi {
			// a multi-stream file from which whole streams (or whole 4-byte padding groups)
			// were removed is itself a valid file: no format without a global check can
			// notice that.  Exempt exactly when the strict reference accepts the file too.
			if ro, _, rerr := ref.DecodeXZ(mod, 0); rerr == nil && bytes.Equal(ro, out) {
				c.Count("multistream_modification_yields_valid_file", 1)
				return
			}
		}
		if clean && !bytes.Equal(out, s.Content) {
			det["what"] = fmt.Sprintf("%s at %d: stream with check %d decodes cleanly to %d bytes differing from the original %d bytes (first difference %d)", j.kind, j.arg, s.Check, len(out), len(s.Content), firstDiff(out, s.Content))
			viol("damaged-decodes-differently:"+j.kind, det)
			return
		}
		if clean {
			c.Count("damage_harmless_same_content", 1)
			c.Count(fmt.Sprintf("harmless:%s:%s", j.kind, regionOf(s, j.kind, j.arg)), 1)
			if os.Getenv("C04_DEBUG") != "" && j.kind == "flip" {
				fmt.Printf("HARMLESS %s bit %d byte %d region %s\n", s.ID, j.arg, j.arg/8, regionOf(s, j.kind, j.arg))
			}
		} else {
			c.Count("damage_detected", 1)
		}
	}()
	return violated
}

func classOf(name string) string {
	if len(name) > 5 && name[:5] == "edit:" {
		return "edit"
	}
	if len(name) > 9 && name[:9] == "sealflip:" {
		return "sealflip"
	}
	return name
}

// regionOf names the structural region of the seed an offset falls into.
func regionOf(s *xzSeed, kind string, arg int) string {
	off := arg
	if kind == "flip" {
		off = arg / 8
	}
	st := s.S
	switch {
	case off < 12:
		return "stream-header"
	case off >= st.FooterOff:
		return "footer"
	case off >= st.IndexOff:
		return "index"
	}
	for _, b := range st.Blocks {
		switch {
		case off < b.HeaderOff:
		case off < b.DataOff:
			return "block-header"
		case off < b.DataOff+b.CompLen:
			return "block-data"
		case off < b.CheckOff:
			return "block-padding"
		case off < b.CheckOff+ref.CheckSize(st.Check):
			return "block-check"
		}
	}
	return "?"
}
