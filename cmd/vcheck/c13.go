package main

import (
	"bytes"
	"fmt"
	"io"
	"os"
	"path/filepath"
	"strings"

	"github.com/ulikunitz/xz"
	"github.com/ulikunitz/xz/lzma"

	"verif/internal/ev"
	"verif/internal/gen"
	"verif/internal/mon"
	"verif/internal/prng"
	"verif/internal/ref"
)

func init() { register("C13", "exploration", checkC13) }

var bufSchedules = []string{"one", "zero-one", "rand64", "rand100k", "edges", "big", "zero-runs"}
var fragKinds = []string{"whole", "one", "short", "eofwith", "std:file", "std:bufio16", "std:bufio4096", "std:bufio-exact", "std:pipe", "std:bytes.Buffer", "std:strings.Reader"}

func c13Streams(c *ev.Ctx) []tstream {
	streams := truncStreams(c)
	r := prng.New(c.Seed, 13)
	// larger multi-block / multi-chunk / multi-stream inputs
	d1 := gen.Data(r, "altseg", 180000)
	streams = append(streams, tstream{ID: "bigxz", Format: "xz", B: libWriteXZ(xz.WriterConfig{DictCap: 65536, BlockSize: 50000}, d1), Content: d1})
	var buf bytes.Buffer
	w, _ := lzma.Writer2Config{DictCap: 32768}.NewWriter2(&buf)
	d2 := append(gen.Data(r, "random", 140000), gen.Data(r, "text", 60000)...)
	w.Write(d2)
	w.Close()
	streams = append(streams, tstream{ID: "big2", Format: "lzma2", B: buf.Bytes(), Content: d2, Dict: 32768})
	d3 := gen.Data(r, "text", 120000)
	k := lzCase{LC: 3, LP: 0, PB: 2, DictCap: 8192, BufSize: 4096, Mode: 1, Part: "one"}
	s3, _, _ := runLZWriter(k, d3)
	streams = append(streams, tstream{ID: "biglzma", Format: "lzma", B: s3.Buf, Content: d3})
	d4 := gen.Data(r, "lowent", 30000)
	multi := append(append(libWriteXZ(xz.WriterConfig{DictCap: 4096, BlockSize: 7000}, d4), make([]byte, 8)...), libWriteXZ(xz.WriterConfig{DictCap: 4096, CheckSum: xz.SHA256}, d1[:20000])...)
	streams = append(streams, tstream{ID: "bigmulti", Format: "xz", B: multi, Content: append(append([]byte{}, d4...), d1[:20000]...)})
	// foreign streams: xz-utils files with a 4 KiB dictionary and 64 KiB uncompressed chunks
	// (the library's own writer never emits a raw chunk larger than its dictionary)
	for _, n := range []string{"xz/big-d4k.xz", "xz/big-d64k-bt2.xz", "xz/mt-sized.xz", "xz/blocks-mixed.xz", "xz/concat-pad.xz", "lzma/big.lzma", "lzma/lclppb-042.lzma"} {
		b, err := os.ReadFile(filepath.Join(c.Dir, "corpus", n))
		if err != nil {
			continue
		}
		var content []byte
		f := "xz"
		if strings.HasPrefix(n, "lzma/") {
			f = "lzma"
			content, _, err = ref.DecodeAlone(b, 0)
		} else {
			content, _, err = ref.DecodeXZ(b, 0)
		}
		if err == nil {
			streams = append(streams, tstream{ID: "corpus:" + n, Format: f, B: b, Content: content})
		}
	}
	for i := 0; i < 3; i++ {
		rr := prng.New(c.Seed, 132, uint64(i))
		l2, content, _ := ref.GenLZMA2(rr, ref.LZMA2Plan{DictSize: 4096, NChunks: 6, OpsPer: 400, BigChunk: true})
		streams = append(streams, tstream{ID: fmt.Sprintf("genraw%d", i), Format: "lzma2", B: l2, Content: content, Dict: 4096})
		xzs := ref.BuildXZ(ref.CheckCRC64, []ref.BlockSpec{{LZMA2: l2, Content: content, DictCode: 0}})
		streams = append(streams, tstream{ID: fmt.Sprintf("genrawxz%d", i), Format: "xz", B: xzs, Content: content})
	}
	// streams whose content is longer than the reader's window, so that the decoder's ring
	// buffer wraps inside the last chunk - with the last chunk raw, compressed, or a mix
	wi := 0
	for _, dict := range []int{4096, 8192} {
		for _, shape := range [][2]string{{"random", ""}, {"random", "text"}, {"text", "random"}, {"zeros", "random"}, {"text", ""}, {"lowent", "random"}} {
			for _, n := range []int{dict + 100, 2*dict + 2, 3*dict + 1717} {
				wi++
				a := gen.Data(r, shape[0], n)
				if shape[1] != "" {
					a = append(a[:n/3:n/3], gen.Data(r, shape[1], n-n/3)...)
				}
				var b2 bytes.Buffer
				if w2, err := (lzma.Writer2Config{DictCap: dict, BufSize: 4096}).NewWriter2(&b2); err == nil {
					w2.Write(a)
					w2.Close()
					streams = append(streams, tstream{ID: fmt.Sprintf("wrap2-%d", wi), Format: "lzma2", B: b2.Bytes(), Content: a, Dict: dict})
				}
				switch wi % 3 {
				case 0:
					streams = append(streams, tstream{ID: fmt.Sprintf("wrapxz-%d", wi), Format: "xz", B: libWriteXZ(xz.WriterConfig{DictCap: dict, BlockSize: int64(r.Pick(0, 0, n/2+1))}, a), Content: a})
				case 1:
					kk := lzCase{LC: 3, LP: 0, PB: 2, DictCap: dict, BufSize: 4096, Mode: wi % 2, Part: "one"}
					if sk, dev, pn := runLZWriter(kk, a); dev == "" && pn == nil {
						streams = append(streams, tstream{ID: fmt.Sprintf("wraplzma-%d", wi), Format: "lzma", B: sk.Buf, Content: a})
					}
				}
			}
		}
	}
	// uncompressed chunks that end exactly where the decoded output reaches a multiple of the
	// ring size of the reader's dictionary (DictCap+1), written with Flush so that the chunk
	// borders are where they are wanted, followed by compressed data
	for _, dict := range []int{4096, 8192} {
		for vi, cuts := range [][]int{{2000, dict + 1 - 2000}, {dict + 1}, {1, dict}, {dict, 1}, {dict + 1, dict + 1}, {3000, 2*(dict+1) - 3000}} {
			var b2 bytes.Buffer
			w2, err := (lzma.Writer2Config{DictCap: dict, BufSize: 4096}).NewWriter2(&b2)
			if err != nil {
				continue
			}
			var content []byte
			for _, n := range cuts {
				for n > 0 {
					k := n
					if k > 60000 {
						k = 60000
					}
					d := gen.Data(r, "random", k)
					w2.Write(d)
					w2.Flush()
					content = append(content, d...)
					n -= k
				}
			}
			t := gen.Data(r, "text", 3000)
			w2.Write(t)
			content = append(content, t...)
			w2.Close()
			streams = append(streams, tstream{ID: fmt.Sprintf("ringend2-%d-%d", dict, vi), Format: "lzma2", B: b2.Bytes(), Content: content, Dict: dict})
			if vi%2 == 0 {
				xzs := ref.BuildXZ(ref.CheckCRC32, []ref.BlockSpec{{LZMA2: b2.Bytes(), Content: content, DictCode: byte(map[int]int{4096: 0, 8192: 2}[dict])}})
				if o, _, err := ref.DecodeXZ(xzs, 0); err == nil && bytes.Equal(o, content) {
					streams = append(streams, tstream{ID: fmt.Sprintf("ringendxz-%d-%d", dict, vi), Format: "xz", B: xzs, Content: content})
				}
			}
		}
	}
	// compressed chunk, an uncompressed chunk longer than the reader's dictionary (by an amount
	// that is no multiple of 4, so that position bits are off if a position is lost), then a
	// compressed chunk that continues the state: a look-ahead buffer larger than the dictionary
	// makes the library's writer produce it
	for di, dict := range []int{4096, 8192} {
		for vi, raw := range []int{dict + 2, dict + 905, dict + 1911, 2*dict + 3, 3*dict - 1} {
			props := []lzma.Properties{{LC: 3, LP: 0, PB: 2}, {LC: 0, LP: 2, PB: 0}, {LC: 1, LP: 1, PB: 4}}[(vi+di)%3]
			var b2 bytes.Buffer
			w2, err := (lzma.Writer2Config{Properties: &props, DictCap: dict, BufSize: 4 * dict}).NewWriter2(&b2)
			if err != nil {
				continue
			}
			var content []byte
			for pi, part := range [][2]any{{"text", 3000 + vi}, {"random", raw}, {"text", 3000}} {
				d := gen.Data(r, part[0].(string), part[1].(int))
				w2.Write(d)
				if pi < 2 {
					w2.Flush()
				}
				content = append(content, d...)
			}
			w2.Close()
			streams = append(streams, tstream{ID: fmt.Sprintf("longraw2-%d-%d", dict, vi), Format: "lzma2", B: b2.Bytes(), Content: content, Dict: dict})
			if vi%2 == 0 {
				xzs := ref.BuildXZ(ref.CheckCRC32, []ref.BlockSpec{{LZMA2: b2.Bytes(), Content: content, DictCode: byte(map[int]int{4096: 0, 8192: 2}[dict])}})
				if o, _, err := ref.DecodeXZ(xzs, 0); err == nil && bytes.Equal(o, content) {
					streams = append(streams, tstream{ID: fmt.Sprintf("longrawxz-%d-%d", dict, vi), Format: "xz", B: xzs, Content: content})
				}
			}
		}
	}
	return streams
}

func checkC13(c *ev.Ctx) {
	c.SetRule("triples (valid stream, schedule of Read buffer lengths, source fragmentation): streams of all three formats (multi-block, multi-chunk, multi-stream, small and ~200 KB); buffer schedules: constant 1, alternating 0/1, data reads separated by runs of 5..5000 zero-length reads, random 0..64, random 0..100000, lengths at block/chunk/dictionary edges +-1, one large; fragmentations: whole, 1 byte, random short reads, data together with io.EOF (with and without io.ByteReader), and the concrete source types of production (a real file, buffered readers of three sizes over a source delivering in pieces, io.Pipe, bytes.Buffer, strings.Reader); every read buffer is a window of a larger array with canaries behind it. The full (len(p), n, err) sequence is monitored. distinct non-trivial = distinct (stream, schedule, fragmentation, ByteReader?) triples")
	c.Assume("sources never return (0, nil) for a non-empty buffer (the property does not cover such sources)")
	streams := c13Streams(c)
	n := 12000
	if thorough(c) {
		n = 300000
	}
	c.MinEvals(int64(n / 2))
	par(n, func(i int) {
		id := fmt.Sprintf("t%d", i)
		noteCase(id)
		if !want(c, id) {
			return
		}
		r := prng.New(c.Seed, 130, uint64(i))
		s := streams[i%len(streams)]
		sched := bufSchedules[r.Intn(len(bufSchedules))]
		frag := fragKinds[r.Intn(len(fragKinds))]
		if f := os.Getenv("C13_ONLY"); f != "" {
			frag = f
		}
		byteSrc := r.Bool()
		if len(s.Content) > 50000 && (sched == "one" || sched == "zero-one") && (i%7 != 0 || len(s.Content) > 400000) {
			sched = "rand64"
		}
		if frag == "std:pipe" && len(s.B) > 4000 {
			// the readers take single bytes from an unbuffered source: over a synchronous pipe every
			// byte is a hand-over between two goroutines (here: two locked OS threads)
			frag = "std:bufio4096"
		}
		if strings.HasPrefix(frag, "std:") && len(s.Content) > 20000 && (sched == "one" || sched == "zero-one" || sched == "zero-runs") {
			sched = "rand100k"
		}
		src := mon.NewSource(s.B)
		src.Frag = frag
		fr := prng.New(c.Seed, 131, uint64(i))
		src.Next = func(max int) int { return fr.Range(1, 1+fr.Pick(1, 3, 17, 300, 5000)) }
		var rd io.Reader = src
		if byteSrc {
			rd = mon.ByteSource{Source: src}
		}
		if strings.HasPrefix(frag, "std:") {
			// one of the concrete source types of production instead of the harness's own
			var release func()
			rd, release = mon.OpenSource(frag[4:], s.B, uint64(i)+c.Seed)
			defer release()
			byteSrc = false
		}
		f := s.Format
		if f == "xz-multi" {
			f = "xz"
		}
		det := map[string]any{"case_id": id, "stream": s.ID, "format": f, "schedule": sched, "fragmentation": frag, "bytereader_source": byteSrc, "stream_len": len(s.B), "content_len": len(s.Content)}
		var lr io.Reader
		var cerr error
		var trace []string
		var out []byte
		bad := ""
		eofSeen := false
		pn := mon.Guard(func() {
			switch f {
			case "xz":
				lr, cerr = xz.ReaderConfig{DictCap: 4096}.NewReader(rd)
			case "xz-single":
				lr, cerr = xz.ReaderConfig{DictCap: 4096, SingleStream: true}.NewReader(rd)
			case "lzma":
				lr, cerr = lzma.ReaderConfig{DictCap: 4096}.NewReader(rd)
			case "lzma2":
				lr, cerr = lzma.Reader2Config{DictCap: s.Dict}.NewReader2(rd)
			}
			if cerr != nil {
				return
			}
			edges := []int{4095, 4096, 4097, 65535, 65536, 65537, 50000, 49999, 50001, 7000, 6999, 273}
			nilZero := 0
			afterEOF := 0
			zrun, zbudget := 0, 60000
			maxSteps := 3*len(s.Content) + 100000 // a logical bound: even alternating 0/1-byte reads need only 2 calls per byte
			for step := 0; step < maxSteps; step++ {
				var l int
				switch sched {
				case "one":
					l = 1
				case "zero-one":
					l = step & 1
				case "rand64":
					l = r.Intn(65)
				case "rand100k":
					l = r.Intn(100001)
				case "edges":
					l = edges[r.Intn(len(edges))] + r.Intn(3) - 1
				case "zero-runs":
					// long monotonous stretches of empty reads between data reads: a caller
					// polling with an empty buffer must neither lose data nor end the stream
					if zrun > 0 {
						zrun--
						l = 0
					} else if r.Chance(1, 40) && zbudget > 0 {
						zrun = r.Pick(5, 99, 100, 101, 150, 1000, 5000)
						zbudget -= zrun
						l = 0
					} else {
						l = 1 + r.Intn(r.Pick(3, 64, 3000))
					}
				default:
					l = 1 << 20
				}
				if eofSeen && l == 0 {
					l = 1 + r.Intn(50)
				}
				p := mon.GuardedBuf(l)
				nn, err := lr.Read(p)
				if !mon.GuardIntact(p) {
					bad = fmt.Sprintf("Read with a buffer of %d bytes (a window of a larger array) wrote behind the window", l)
					return
				}
				if len(trace) < 12 || eofSeen {
					trace = append(trace, fmt.Sprintf("Read(%d)=(%d,%v)", l, nn, err))
				}
				if nn < 0 || nn > l {
					bad = fmt.Sprintf("Read with a buffer of %d bytes returned n=%d", l, nn)
					return
				}
				if eofSeen {
					// every further read into a non-empty buffer: (0, EOF)
					if nn != 0 || err != io.EOF {
						bad = fmt.Sprintf("after end of stream was reported, Read(%d) returned (%d, %v)", l, nn, err)
						return
					}
					afterEOF++
					if afterEOF >= 3 {
						return
					}
					continue
				}
				out = append(out, p[:nn]...)
				if err == io.EOF {
					eofSeen = true
					if l == 0 {
						det["eof_on_zero_length_read"] = true
					}
					continue
				}
				if err != nil {
					bad = fmt.Sprintf("Read(%d) failed with %v after %d of %d bytes", l, err, len(out), len(s.Content))
					return
				}
				if nn == 0 && l > 0 {
					nilZero++
					if nilZero > 1000 {
						bad = "1000 consecutive (0, nil) results for a non-empty buffer: no progress"
						return
					}
				} else if nn > 0 {
					nilZero = 0
				}
			}
			bad = fmt.Sprintf("no end of stream after %d Read calls for %d content bytes", maxSteps, len(s.Content))
		})
		det["trace"] = trace
		c.Eval(fmt.Sprintf("%s|%s|%s|%v", s.ID, sched, frag, byteSrc), true)
		c.Count("sched:"+sched, 1)
		c.Count("frag:"+frag, 1)
		switch {
		case pn != nil:
			det["what"] = "reader panicked: " + pn.Value
			c.Violation("panic:"+f, det)
		case cerr != nil:
			det["what"] = fmt.Sprintf("constructor rejects a valid stream under fragmentation %s: %v", frag, cerr)
			c.Violation("ctor-error:"+f, det)
		case bad != "":
			det["what"] = bad
			sig := "read-schedule:" + f
			if eofSeen {
				sig = "eof-not-stable:" + f
			}
			c.Violation(sig, det)
		case !bytes.Equal(out, s.Content):
			what := fmt.Sprintf("bytes delivered under schedule %s / fragmentation %s differ from the content: %d vs %d bytes, first difference %d", sched, frag, len(out), len(s.Content), firstDiff(out, s.Content))
			sig := "content-differs:" + f
			if len(out) < len(s.Content) && bytes.Equal(out, s.Content[:len(out)]) {
				sig = "eof-before-all-data:" + f
				what = fmt.Sprintf("end of stream reported after %d of %d bytes (schedule %s, fragmentation %s, zero-length read involved: %v)", len(out), len(s.Content), sched, frag, det["eof_on_zero_length_read"])
			}
			det["what"] = what
			c.Violation(sig, det)
		}
		if i%401 == 0 {
			c.Sample(map[string]any{"stream": s.ID, "format": f, "schedule": sched, "fragmentation": frag, "bytereader": byteSrc, "first_calls": tail(trace, 6), "source_calls": src.Calls})
		}
	})
}
