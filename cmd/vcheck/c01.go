package main

import (
	"bytes"
	"crypto/sha256"
	"fmt"
	"hash"
	"io"

	"github.com/ulikunitz/xz"

	"verif/internal/ev"
	"verif/internal/mon"
	"verif/internal/prng"
)

func init() { register("C01", "exploration", checkC01) }

func c01Counts(c *ev.Ctx) (n int, big bool) {
	if thorough(c) {
		return 24000, true
	}
	return 1500, false
}

// bigCases are the few inputs beyond the 2 MiB uncompressed chunk limit.
func bigXZCases(seed uint64) []xzCase {
	return append(chunkLimitCases(seed), bigFixedCases(seed)...)
}

// chunkLimitCases put the encoder's ring buffer (DictCap+BufSize+1 bytes) next to the size of
// a full chunk (up to 64 KiB compressed, a little more uncompressed): whether the bytes of a
// chunk that is to be stored raw are still resident depends on both numbers.  Incompressible
// data (several chunks per block), a compressible tail, alone and followed by more noise.
func chunkLimitCases(seed uint64) []xzCase {
	var out []xzCase
	r := prng.New(seed, 17)
	i := 0
	for _, d := range []int{45000, 49152, 53000, 57344, 59000, 61000, 62000, 63000, 64000, 65000, 65535, 66000, 66200, 67000, 70000} {
		for _, b := range []int{273, 0, 8192, 16384} {
			fam := []string{"random", "sandwich2", "noisyrep", "altseg"}[i%4]
			n := 140000 + r.Intn(30000)
			if fam == "sandwich2" {
				n = 300000
			}
			out = append(out, xzCase{ID: fmt.Sprintf("lim%d", i), LC: 3, PB: 2, DictCap: d, BufSize: b, Check: []string{"crc32", "none", "crc64"}[i%3], Matcher: 0,
				Family: fam, N: n, Part: []string{"one", "random"}[i%2], Seed: seed + 1000 + uint64(i)})
			i++
		}
	}
	// short runs that end inside the look-ahead, over several revolutions of a small ring buffer
	for _, b := range []int{273, 0, 65536} {
		for _, d := range []int{4096, 5000} {
			out = append(out, xzCase{ID: fmt.Sprintf("lim%d", i), LC: 3, PB: 2, DictCap: d, BufSize: b, Check: "crc32", Matcher: i % 2,
				Family: "shortruns", N: 60000 + 1000*i, Part: []string{"one", "random", "iocopy"}[i%3], Seed: seed + 2000 + uint64(i)*10})
			i++
		}
	}
	// a block of noise and its copy at a distance equal to the dictionary capacity, for
	// capacities next to the representable sizes (2^k, 3*2^k, each +-1): the block header has
	// to announce a dictionary that covers the capacity the encoder really uses
	for _, d := range []int{4097, 6143, 6144, 6145, 8191, 8193, 12287, 12289, 24577, 49153, 65537, 98305, 196609} {
		out = append(out, xzCase{ID: fmt.Sprintf("lim%d", i), LC: 3, PB: 2, DictCap: d, BufSize: []int{0, 273, 4096}[i%3], Check: []string{"crc32", "none", "crc64"}[i%3], Matcher: i % 2,
			Family: "xx", N: 2 * d, Part: []string{"one", "random"}[i%2], Seed: seed + 3000 + uint64(i)})
		i++
	}
	return out
}

func bigFixedCases(seed uint64) []xzCase {
	return []xzCase{
		{ID: "big0", LC: 3, LP: 0, PB: 2, DictCap: 65536, Check: "crc32", Matcher: 0, Family: "zeros", N: 2<<20 + 70000, Part: "one", Seed: seed + 1},
		{ID: "big1", LC: 0, LP: 2, PB: 0, DictCap: 1 << 20, Check: "sha256", Matcher: 0, Family: "text", N: 2<<20 + 4097, Part: "random", Seed: seed + 2},
		{ID: "big2", LC: 3, LP: 0, PB: 2, DictCap: 0, Check: "default", Matcher: 0, Family: "altseg", N: 3 << 20, Part: "edges", Seed: seed + 3},
		{ID: "big3", LC: 4, LP: 0, PB: 4, DictCap: 4096, BufSize: 273, Check: "none", Matcher: 0, Family: "random", N: 300000, Part: "random", Seed: seed + 4},
		// far match distances (8 MiB): the distance coder's high slots on the writer side
		{ID: "big5", LC: 3, LP: 0, PB: 2, DictCap: 16 << 20, Check: "crc32", Matcher: 0, Family: "xgapx", N: 12 << 20, Part: "one", Seed: seed + 6},
		// >= 64 KiB incompressible, then > 2 MiB of zeros, in one Write call
		{ID: "big6", LC: 3, LP: 0, PB: 2, DictCap: 1 << 20, Check: "crc64", Matcher: 0, Family: "randzeros", N: 2<<20 + 400123, Part: "one", Seed: seed + 7},
		{ID: "big7", LC: 0, LP: 0, PB: 0, DictCap: 65536, BufSize: 273, Check: "crc32", Matcher: 0, Family: "randzeros", N: 3<<20 + 7, Part: "one", Seed: seed + 8},
		{ID: "big4", LC: 3, LP: 0, PB: 2, DictCap: 0, Check: "default", Matcher: 1, Family: "text", N: 300000, Part: "one", Seed: seed + 5},
		// one match in every distance slot up to 64 MiB (pairs of markers in zeros at distances
		// just above 2^k and 3*2^(k-1)): the writer's distance coder including its largest slots
		{ID: "big8", LC: 3, LP: 0, PB: 2, DictCap: 1 << 26, Check: "crc32", Matcher: 0, Family: "farmarks", N: 1<<26 + 20000, Part: "one", Seed: seed + 9},
		// compressible, then more than 256 KiB of noise, then compressible, in one block: the
		// chunk trace L .. U U U .. L (several stored chunks in a row between LZMA chunks)
		{ID: "big9", LC: 3, LP: 0, PB: 2, DictCap: 1 << 20, Check: "crc32", Matcher: 0, Family: "sandwich", N: 640000, Part: "one", Seed: seed + 10},
		{ID: "big10", LC: 3, LP: 0, PB: 2, DictCap: 0, Check: "default", Matcher: 0, Family: "sandwich2", N: 700000, Part: "random", Seed: seed + 11},
		{ID: "big11", LC: 2, LP: 1, PB: 1, DictCap: 65536, BufSize: 273, Check: "none", Matcher: 1, Family: "sandwich", N: 560000, Part: "iocopy", Seed: seed + 12},
	}
}

func checkC01(c *ev.Ctx) {
	c.SetRule("cases = (WriterConfig accepted by Verify) x data family x length x Write partition, drawn from VERIF_SEED with systematic sweeps of every value of every dimension; each case: NewWriter, partitioned Writes, Close, Write+Close after Close, then xz.Reader over the sink bytes. distinct non-trivial = distinct tuples (lc,lp,pb | dict class | bufsize | blocksize class | check | matcher | family | partition kind | chunk kinds seen in the output | block count class) with non-empty input")
	c.Assume("the harness sink (append-only byte slice) and Go runtime are correct", "ReaderConfig.DictCap 4096 is used for decoding (the reader enlarges it to the declared size)")
	n, big := c01Counts(c)
	cases := xzCases(c.Seed, 1, n, big)
	cases = append(cases, bigXZCases(c.Seed)...)
	c.MinEvals(int64(len(cases) / 2))
	defaultCtors(c, "xz")
	if thorough(c) {
		par(1, func(int) { hugeRoundTrip(c) })
	}
	par(len(cases), func(i int) {
		k := cases[i]
		noteCase(k.ID)
		if !want(c, k.ID) {
			return
		}
		run := runXZWriter(k)
		if run.Sink != nil {
			noteCarry(c, k.Family, run.Sink.Buf)
		}
		det := k.desc()
		inputDetail(det, run.Data)
		if run.NewErr != nil {
			det["what"] = fmt.Sprintf("NewWriter failed for a configuration that passes Verify: %v", run.NewErr)
			c.Violation("newwriter-error", det)
			c.Eval(k.class(), false)
			return
		}
		if run.Panic != nil {
			det["what"] = "writer panicked: " + run.Panic.Value
			det["stack"] = run.Panic.Stack
			c.Violation("writer-panic:"+firstLine(run.Panic.Value), det)
			c.Eval(k.class(), false)
			return
		}
		if run.WriteErr != "" {
			det["what"] = run.WriteErr
			c.Violation("write-or-close-error", det)
			c.Eval(k.class(), false)
			return
		}
		if run.AfterClose != "" {
			det["what"] = run.AfterClose
			c.Violation("after-close", det)
		}
		kinds, blocks := chunkKindSet(run.Sink.Buf)
		// decode with the library's reader
		var out []byte
		var rerr error
		var oerr error
		pn := mon.Guard(func() {
			var r *xz.Reader
			r, oerr = xz.ReaderConfig{DictCap: 4096}.NewReader(bytes.NewReader(run.Sink.Buf))
			if oerr != nil {
				return
			}
			out, rerr = io.ReadAll(r)
			if rerr == nil {
				// io.ReadAll swallows io.EOF: confirm the reader stays at EOF
				var b [1]byte
				if n, e := r.Read(b[:]); n != 0 || e != io.EOF {
					rerr = fmt.Errorf("read after end returned (%d, %v)", n, e)
				}
			}
		})
		det["output_len"] = len(run.Sink.Buf)
		det["output_head"] = ev.Hex(run.Sink.Buf, 256)
		switch {
		case pn != nil:
			det["what"] = "reader panicked on writer output: " + pn.Value
			det["stack"] = pn.Stack
			c.Violation("reader-panic", det)
		case oerr != nil:
			det["what"] = fmt.Sprintf("NewReader rejects the writer's output: %v", oerr)
			c.Violation("roundtrip-open-error", det)
		case rerr != nil:
			det["what"] = fmt.Sprintf("reading the writer's output failed after %d of %d bytes: %v", len(out), len(run.Data), rerr)
			c.Violation("roundtrip-read-error", det)
		case !bytes.Equal(out, run.Data):
			det["what"] = fmt.Sprintf("decoded %d bytes differ from the %d input bytes (first difference at %d)", len(out), len(run.Data), firstDiff(out, run.Data))
			c.Violation("roundtrip-mismatch", det)
		}
		// small streams once more with writer and reader joined directly by io.Pipe: each Write
		// the writer issues to its sink (zero-length ones included) is one Read result of the reader
		if len(run.Sink.Buf) <= 12000 && len(run.Data) > 0 && (k.Check == "none" || i%3 == 0) {
			pr, pw := io.Pipe()
			var werr error
			done := make(chan struct{})
			go func() {
				defer close(done)
				if p := mon.Guard(func() {
					w, err := k.config().NewWriter(pw)
					if err != nil {
						werr = err
						return
					}
					pos := 0
					for _, l := range k.partition(len(run.Data)) {
						if _, werr = w.Write(run.Data[pos : pos+l]); werr != nil {
							return
						}
						pos += l
					}
					werr = w.Close()
				}); p != nil {
					werr = fmt.Errorf("panic: %s", p.Value)
				}
				pw.CloseWithError(werr)
			}()
			var pout []byte
			var perr error
			if p := mon.Guard(func() {
				var r *xz.Reader
				if r, perr = (xz.ReaderConfig{DictCap: 4096}).NewReader(pr); perr == nil {
					pout, perr = io.ReadAll(r)
				}
			}); p != nil {
				perr = fmt.Errorf("panic: %s", p.Value)
			}
			pr.Close()
			<-done
			c.Count("pipe_round_trips", 1)
			if werr != nil || perr != nil || !bytes.Equal(pout, run.Data) {
				det["what"] = fmt.Sprintf("writer and reader joined by io.Pipe: writer %v, reader %v, %d of %d bytes decoded", werr, perr, len(pout), len(run.Data))
				c.Violation("roundtrip-through-pipe", det)
			}
		}
		bc := "1"
		if blocks > 1 {
			bc = "n"
		}
		c.Eval(k.class()+"|"+kinds+"|b"+bc, len(run.Data) > 0)
		c.Count("bytes_in", int64(len(run.Data)))
		c.Count("write_calls", int64(run.Calls))
		c.Count("chunkset:"+kinds, 1)
		if blocks > 1 {
			c.Count("multi_block_streams", 1)
		}
		if i%97 == 0 {
			c.Sample(map[string]any{"case": k.desc(), "output_bytes": len(run.Sink.Buf), "chunk_kinds": kinds, "blocks": blocks})
		}
	})
}

func firstLine(s string) string {
	for i := 0; i < len(s); i++ {
		if s[i] == '\n' {
			return s[:i]
		}
	}
	if len(s) > 80 {
		return s[:80]
	}
	return s
}

func firstDiff(a, b []byte) int {
	n := len(a)
	if len(b) < n {
		n = len(b)
	}
	for i := 0; i < n; i++ {
		if a[i] != b[i] {
			return i
		}
	}
	return n
}

// patReader delivers n bytes of a deterministic, compressible pattern (text-like blocks with a
// running counter) without holding them in memory.
type patReader struct {
	n, pos int64
	h      hash.Hash
}

func (z *patReader) Read(p []byte) (int, error) {
	if z.pos >= z.n {
		return 0, io.EOF
	}
	if int64(len(p)) > z.n-z.pos {
		p = p[:z.n-z.pos]
	}
	for i := range p {
		q := z.pos + int64(i)
		switch {
		case q%4096 < 8:
			p[i] = byte(q >> (8 * uint(q%8))) // block counter: keeps the stream from being one long run
		default:
			p[i] = "the quick brown fox jumps over the lazy dog "[q%44]
		}
	}
	z.h.Write(p)
	z.pos += int64(len(p))
	return len(p), nil
}

// hugeRoundTrip streams more than 4 GiB through xz.Writer and xz.Reader (connected by a pipe)
// and compares digests: stream positions beyond 2^32.  Thorough tier only (minutes of CPU).
func hugeRoundTrip(c *ev.Ctx) {
	id := "huge4g"
	noteCase(id)
	if !want(c, id) {
		return
	}
	n := int64(1)<<32 + 70001
	src := &patReader{n: n, h: sha256.New()}
	pr, pw := io.Pipe()
	var werr error
	go func() {
		defer func() {
			if p := recover(); p != nil {
				werr = fmt.Errorf("writer panic: %v", p)
			}
			pw.Close()
		}()
		w, err := xz.WriterConfig{DictCap: 1 << 20, CheckSum: xz.CRC64}.NewWriter(pw)
		if err != nil {
			werr = err
			return
		}
		if _, err = io.Copy(w, src); err != nil {
			werr = err
			return
		}
		werr = w.Close()
	}()
	out := sha256.New()
	var got int64
	var rerr error
	pn := mon.Guard(func() {
		var r *xz.Reader
		if r, rerr = xz.NewReader(pr); rerr != nil {
			return
		}
		got, rerr = io.Copy(out, r)
	})
	pr.Close()
	c.Eval("huge|"+id, true)
	c.Count("bytes_in", n)
	if pn != nil || werr != nil || rerr != nil || got != n || !bytes.Equal(out.Sum(nil), src.h.Sum(nil)) {
		c.Violation("roundtrip-huge", map[string]any{"case_id": id, "input_len": n, "delivered": got,
			"what": fmt.Sprintf("round trip of %d bytes (beyond 2^32) through a pipe: writer error %v, reader error %v, panic %v, %d bytes delivered, digests equal = %v", n, werr, rerr, pn, got, bytes.Equal(out.Sum(nil), src.h.Sum(nil)))})
	}
}
