package main

import (
	"bytes"
	"fmt"
	"os"
	"path/filepath"
	"sort"
	"strings"

	"verif/internal/ev"
	"verif/internal/gen"
	"verif/internal/prng"
)

// gxzManyArgs runs gxz with hundreds of file arguments of which a chosen number cannot be
// processed (missing file, existing target without -f, corrupt member for -d).  What gxz keeps
// per run (a status, a counter, a list) is only stressed by such counts: the exit status must
// be non-zero exactly when some argument failed - also when 256, 512 or 768 of them did - and
// every other argument must have been processed as if it had been alone.
func gxzManyArgs(c *ev.Ctx, base string) {
	type sc struct {
		total, fail int
		how         string // missing, target-exists, corrupt
		dec         bool
		f           string
	}
	scs := []sc{
		{256, 256, "missing", false, "xz"},
		{300, 256, "target-exists", false, "lzma"},
		{520, 512, "missing", true, "xz"},
		{260, 0, "", false, "xz"},
		{300, 1, "target-exists", true, "lzma"},
	}
	if thorough(c) {
		scs = append(scs,
			sc{257, 256, "corrupt", true, "xz"},
			sc{770, 768, "missing", false, "lzma"},
			sc{1024, 1024, "missing", false, "xz"},
			sc{255, 255, "missing", false, "xz"},
			sc{600, 257, "target-exists", false, "xz"},
			sc{1200, 0, "", true, "xz"},
			sc{70000, 65536, "missing", false, "xz"})
	}
	par(len(scs), func(i int) {
		s := scs[i]
		id := fmt.Sprintf("many%d", i)
		noteCase(id)
		if !want(c, id) {
			return
		}
		r := prng.New(c.Seed, 157, uint64(i))
		dir := filepath.Join(base, id)
		os.MkdirAll(dir, 0o755)
		defer os.RemoveAll(dir)
		// which arguments fail: spread over the list
		failing := map[int]bool{}
		for _, k := range r.Perm(s.total)[:s.fail] {
			failing[k] = true
		}
		argv := []string{"-F", s.f}
		if s.dec {
			argv = append(argv, "-d")
		}
		plain := map[int][]byte{}
		inName := func(k int) string {
			if s.dec {
				return fmt.Sprintf("m%05d.%s", k, s.f)
			}
			return fmt.Sprintf("m%05d", k)
		}
		outName := func(k int) string {
			if s.dec {
				return fmt.Sprintf("m%05d", k)
			}
			return fmt.Sprintf("m%05d.%s", k, s.f)
		}
		for k := 0; k < s.total; k++ {
			argv = append(argv, inName(k))
			if failing[k] && s.how == "missing" {
				continue
			}
			p := gen.Data(r, "text", 20+r.Intn(200))
			plain[k] = p
			b := p
			if s.dec {
				b = compressWith(s.f, p)
				if failing[k] && s.how == "corrupt" {
					b = append([]byte{}, b...)
					b[len(b)/2] ^= 0x55
					b = b[:len(b)-3]
				}
			}
			os.WriteFile(filepath.Join(dir, inName(k)), b, 0o644)
			if failing[k] && s.how == "target-exists" {
				os.WriteFile(filepath.Join(dir, outName(k)), []byte("older file\n"), 0o644)
			}
		}
		res := runGxzPlain(c, dir, argv)
		if res.RunErr != "" || res.Exit < 0 {
			c.Inconclusive(fmt.Sprintf("many-arguments scenario %s could not be run: %s", id, res.RunErr))
			return
		}
		snap := dirSnapshot(dir)
		c.Eval(fmt.Sprintf("many total=%d failing=%d %s d%v %s", s.total, s.fail, s.how, s.dec, s.f), true)
		c.Count("many_argument_runs", 1)
		c.Count("many_argument_files", int64(s.total))
		det := map[string]any{"case_id": id, "arguments": s.total, "failing_arguments": s.fail, "failure_kind": s.how, "argv_head": argv[:6], "exit": res.Exit, "stderr": clipStr(res.Stderr, 300)}
		viol := func(sig, what string) {
			det["what"] = what
			c.Violation(sig, det)
		}
		if (res.Exit != 0) != (s.fail > 0) {
			viol("exit-status", fmt.Sprintf("%d of %d arguments could not be processed (%s) but the exit status is %d", s.fail, s.total, s.how, res.Exit))
		}
		var wrong []string
		for k := 0; k < s.total; k++ {
			in, out := snap[inName(k)], snap[outName(k)]
			_, inThere := snap[inName(k)]
			_, outThere := snap[outName(k)]
			switch {
			case failing[k] && s.how == "missing":
				if inThere || outThere {
					wrong = append(wrong, fmt.Sprintf("%s: files appeared for a missing argument", inName(k)))
				}
			case failing[k] && s.how == "target-exists":
				if !inThere || !bytes.Equal(out, []byte("older file\n")) {
					wrong = append(wrong, fmt.Sprintf("%s: input gone or existing target changed without -f", inName(k)))
				}
			case failing[k]:
				if !inThere || outThere {
					wrong = append(wrong, fmt.Sprintf("%s: corrupt input removed or a target left", inName(k)))
				}
			default:
				ok := outThere && !inThere
				if ok && s.dec {
					ok = bytes.Equal(out, plain[k])
				} else if ok {
					ok = decodesTo(s.f, out, plain[k])
				}
				if !ok {
					wrong = append(wrong, fmt.Sprintf("%s: not processed (input present %v, target present %v, %d bytes)", inName(k), inThere, outThere, len(out)))
				}
			}
			_ = in
		}
		for name := range snap {
			if strings.HasSuffix(name, ".compress") || strings.HasSuffix(name, ".decompress") {
				wrong = append(wrong, "temporary file left: "+name)
			}
		}
		if len(wrong) > 0 {
			sort.Strings(wrong)
			det["files_wrong"] = len(wrong)
			viol("file-content", fmt.Sprintf("%d argument(s) not handled independently of the others; first: %s", len(wrong), wrong[0]))
		}
		c.Sample(map[string]any{"arguments": s.total, "failing": s.fail, "kind": s.how, "decompress": s.dec, "format": s.f, "exit": res.Exit})
	})
}
