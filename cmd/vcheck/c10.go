package main

import (
	"bytes"
	"crypto/sha256"
	"fmt"
	"os"
	"path/filepath"
	"strings"
	"sync"

	"github.com/ulikunitz/xz"
	"github.com/ulikunitz/xz/lzma"

	"verif/internal/ev"
	"verif/internal/gen"
	"verif/internal/prng"
	"verif/internal/ref"
)

func init() { register("C10", "fault_enumeration", checkC10) }

type gscen struct {
	ID                  string
	Decomp              bool
	Format              string // xz, lzma
	Keep, Force, Stdout bool
	Name                string
	Input               string // small, big, empty, corrupt, truncated
	Existing            bool   // target pre-exists
	Preset              string
	Rel                 bool   // the file is named relative to the working directory, after "--"
	Link                bool   // the pre-existing target is a symbolic link to the input
	Extra               bool   // a second input file, named like the temporary file of the first, is given as second argument
	Alias               string // gxz is called by this name (a symbolic link); the flags the name implies are not given
}

func (s gscen) String() string {
	op := "compress"
	if s.Decomp {
		op = "decompress"
	}
	rel := ""
	if s.Rel {
		rel = " relative-name"
	}
	if s.Link {
		rel += " target-is-link-to-input"
	}
	if s.Extra {
		rel += " second-input-named-like-temporary"
	}
	if s.Alias != "" {
		rel += " called-as-" + s.Alias
	}
	return fmt.Sprintf("%s %s k=%v f=%v c=%v name=%s input=%s existing=%v%s", op, s.Format, s.Keep, s.Force, s.Stdout, s.Name, s.Input, s.Existing, rel)
}

// plain returns the plaintext P of the scenario.
func (s gscen) plain(seed uint64) []byte {
	r := prng.New(seed, 10)
	switch s.Input {
	case "empty":
		return []byte{}
	case "big":
		return gen.Data(r, "random", 300<<10)
	case "mixed":
		// text, 300 KB of noise (several stored chunks in a row), text: like an archive with a
		// media member between documents
		return gen.Data(r, "sandwich", 600000)
	case "truncated-aligned":
		// compressible head, incompressible tail: near 32 KiB of output every further input
		// byte yields about one more output byte, so a cut with an exact count exists
		return append(gen.Data(r, "text", 30000), gen.Data(r, "random", 10000)...)
	}
	return gen.Data(r, "text", 3000)
}

func compressWith(format string, p []byte) []byte {
	var buf bytes.Buffer
	if format == "xz" {
		w, _ := xz.WriterConfig{DictCap: 1 << 16}.NewWriter(&buf)
		w.Write(p)
		w.Close()
	} else {
		w, _ := lzma.WriterConfig{DictCap: 1 << 16}.NewWriter(&buf)
		w.Write(p)
		w.Close()
	}
	return buf.Bytes()
}

// setup creates the scenario directory and returns input bytes C_in, the
// plaintext P, the target name ("" if none can exist) and whether the run is
// expected to succeed without injected faults.
func (s gscen) setup(dir string, seed uint64) (cin, plain []byte, target string, expectOK bool) {
	os.MkdirAll(dir, 0o755)
	plain = s.plain(seed)
	ext, tarExt := "."+s.Format, ".txz"
	if s.Format == "lzma" {
		tarExt = ".tlz"
	}
	valid := true
	if !s.Decomp {
		cin = plain
		nameOK := !hasSuffixAny(s.Name, ext, tarExt)
		target = s.Name + ext
		expectOK = nameOK && (!s.Existing || s.Force)
		if !nameOK {
			target = ""
		}
	} else {
		cin = compressWith(s.Format, plain)
		switch s.Input {
		case "corrupt":
			cin = append([]byte(nil), cin...)
			cin[len(cin)/2] ^= 0x20
			valid = false
		case "truncated":
			cin = cin[:len(cin)-len(cin)/3]
			valid = false
		case "truncated-aligned":
			cin = alignedCut(s.Format, cin)
			valid = false
		}
		switch {
		case strings.HasSuffix(s.Name, ext):
			target = strings.TrimSuffix(s.Name, ext)
		case strings.HasSuffix(s.Name, tarExt):
			target = strings.TrimSuffix(s.Name, tarExt) + ".tar"
		}
		expectOK = valid && target != "" && (!s.Existing || s.Force)
	}
	if s.Stdout {
		expectOK = valid
		target = ""
	}
	os.WriteFile(filepath.Join(dir, s.Name), cin, 0o644)
	if s.Extra {
		os.WriteFile(filepath.Join(dir, s.extraName()), extraContent, 0o644)
		expectOK = false // the second argument cannot be processed as it is (or the first cannot)
	}
	if s.Existing && target != "" {
		if s.Link {
			os.Symlink(s.Name, filepath.Join(dir, target))
		} else {
			os.WriteFile(filepath.Join(dir, target), []byte("PRE-EXISTING TARGET CONTENT"), 0o600)
		}
	}
	return
}

var alignedCuts sync.Map

// alignedCut truncates a valid compressed file at a position from which the library's reader
// delivers exactly 32768 bytes (the buffer size of io.Copy, which gxz uses) before it notices
// the truncation; if there is no such position the file is cut where at least that much comes
// out.  The library reader only selects the input here; the verdict is the directory oracle's.
func alignedCut(format string, full []byte) []byte {
	key := fmt.Sprintf("%s-%x", format, sha256.Sum256(full))
	if v, ok := alignedCuts.Load(key); ok {
		return full[:v.(int)]
	}
	delivered := func(cut int) int {
		f := format
		out, _, _, _ := openRead(f, full[:cut], 1<<16)
		return len(out)
	}
	lo, hi := 14, len(full)-1
	for lo < hi {
		m := (lo + hi) / 2
		if delivered(m) >= 32768 {
			hi = m
		} else {
			lo = m + 1
		}
	}
	cut := lo
	for c := lo; c < len(full)-1 && c < lo+64; c++ {
		if delivered(c) == 32768 {
			cut = c
			break
		}
	}
	alignedCuts.Store(key, cut)
	return full[:cut]
}

// extraName is the name of the second input of an Extra scenario: what gxz uses as temporary
// name for the first input's target.
func (s gscen) extraName() string {
	ext := "." + s.Format
	if !s.Decomp {
		return s.Name + ext + ".compress"
	}
	return strings.TrimSuffix(s.Name, ext) + ".decompress"
}

var extraContent = []byte("SECOND INPUT FILE OF THE RUN; its name happens to be the temporary name of the first\n")

func (s gscen) args(dir string) []string {
	var a []string
	if s.Alias != "" {
		// xzcat / lzcat: decompress to standard output; unxz / unlzma: decompress; lzma: .lzma format
		if s.Keep {
			a = append(a, "-k")
		}
		if s.Force {
			a = append(a, "-f")
		}
		if !s.Decomp {
			a = append(a, s.Preset)
		}
		return append(a, filepath.Join(dir, s.Name))
	}
	if s.Decomp {
		a = append(a, "-d")
	}
	if s.Keep {
		a = append(a, "-k")
	}
	if s.Force {
		a = append(a, "-f")
	}
	if s.Stdout {
		a = append(a, "-c")
	}
	if !s.Decomp {
		a = append(a, "-F", s.Format, s.Preset)
	}
	if s.Rel {
		return append(a, "--", s.Name)
	}
	if s.Extra {
		return append(a, filepath.Join(dir, s.Name), filepath.Join(dir, s.extraName()))
	}
	return append(a, filepath.Join(dir, s.Name))
}

// complete tells whether b is a complete output for the scenario.
func (s gscen) complete(b, cin, plain []byte) bool {
	if s.Decomp {
		return bytes.Equal(b, plain)
	}
	var out []byte
	var err error
	if s.Format == "xz" {
		out, _, err = ref.DecodeXZ(b, 0)
	} else {
		var info ref.AloneInfo
		out, info, err = ref.DecodeAlone(b, 0)
		if err == nil && info.Consumed != len(b) {
			err = fmt.Errorf("trailing bytes")
		}
	}
	return err == nil && bytes.Equal(out, cin)
}

func c10Scenarios(c *ev.Ctx) []gscen {
	var out []gscen
	add := func(s gscen) {
		s.ID = fmt.Sprintf("s%d", len(out))
		if s.Preset == "" {
			s.Preset = "-0"
		}
		out = append(out, s)
	}
	if !thorough(c) {
		for _, f := range []string{"xz", "lzma"} {
			add(gscen{Format: f, Name: "data.txt", Input: "small"})
			add(gscen{Format: f, Name: "data.txt", Input: "small", Keep: true})
			add(gscen{Format: f, Name: "data", Input: "big"})
			add(gscen{Format: f, Name: "data.txt", Input: "small", Existing: true})
			add(gscen{Format: f, Name: "data.txt", Input: "small", Existing: true, Force: true})
			add(gscen{Format: f, Name: "data.txt", Input: "small", Stdout: true})
			add(gscen{Decomp: true, Format: f, Name: "data." + f, Input: "small"})
			add(gscen{Decomp: true, Format: f, Name: "data." + f, Input: "big", Keep: true})
			add(gscen{Decomp: true, Format: f, Name: "data." + f, Input: "corrupt"})
			add(gscen{Decomp: true, Format: f, Name: "data." + f, Input: "truncated"})
			add(gscen{Decomp: true, Format: f, Name: "data." + f, Input: "truncated-aligned"})
			add(gscen{Decomp: true, Format: f, Name: "data.bin", Input: "small", Force: true})
			add(gscen{Decomp: true, Format: f, Name: "data." + f, Input: "small", Existing: true, Force: true})
		}
		// names given relative to the working directory, also one that looks like an option or
		// like the stdin/stdout marker once the suffix is removed
		add(gscen{Decomp: true, Format: "xz", Name: "-.xz", Input: "small", Rel: true})
		add(gscen{Decomp: true, Format: "lzma", Name: "-.lzma", Input: "truncated", Rel: true})
		add(gscen{Decomp: true, Format: "lzma", Name: "-k.lzma", Input: "small", Rel: true})
		add(gscen{Format: "xz", Name: "-c", Input: "small", Rel: true})
		add(gscen{Format: "lzma", Name: "plain name", Input: "small", Rel: true, Keep: true})
		// a second input whose name is the temporary name of the first
		add(gscen{Format: "xz", Name: "report", Input: "small", Extra: true})
		add(gscen{Format: "lzma", Name: "report", Input: "small", Extra: true, Force: true})
		add(gscen{Decomp: true, Format: "xz", Name: "notes.xz", Input: "small", Extra: true})
		add(gscen{Decomp: true, Format: "lzma", Name: "notes.lzma", Input: "small", Extra: true, Keep: true})
		// the target name exists as a symbolic link that resolves to the input
		add(gscen{Format: "xz", Name: "data.txt", Input: "small", Existing: true, Force: true, Link: true})
		add(gscen{Format: "lzma", Name: "data.txt", Input: "small", Existing: true, Force: true, Link: true, Keep: true})
		add(gscen{Decomp: true, Format: "xz", Name: "data.xz", Input: "small", Existing: true, Force: true, Link: true})
		add(gscen{Decomp: true, Format: "lzma", Name: "data.lzma", Input: "small", Existing: true, Link: true})
		add(gscen{Format: "xz", Name: "archive.tar", Input: "mixed", Preset: "-6"})
		add(gscen{Format: "lzma", Name: "archive.tar", Input: "mixed", Keep: true})
		// called by another name
		add(gscen{Alias: "xzcat", Decomp: true, Stdout: true, Format: "xz", Name: "data.xz", Input: "small"})
		add(gscen{Alias: "lzcat", Decomp: true, Stdout: true, Format: "lzma", Name: "data.lzma", Input: "small"})
		add(gscen{Alias: "gxzcat", Decomp: true, Stdout: true, Format: "xz", Name: "data.xz", Input: "truncated"})
		add(gscen{Alias: "unxz", Decomp: true, Format: "xz", Name: "data.xz", Input: "small"})
		add(gscen{Alias: "unlzma", Decomp: true, Format: "lzma", Name: "data.lzma", Input: "small", Keep: true})
		add(gscen{Alias: "lzma", Format: "lzma", Name: "data.txt", Input: "small"})
		add(gscen{Format: "xz", Name: "data.txz", Input: "small"})
		add(gscen{Decomp: true, Format: "xz", Name: "data.txz", Input: "small"})
		add(gscen{Decomp: true, Format: "lzma", Name: "data.tlz", Input: "small", Stdout: true})
		add(gscen{Format: "xz", Name: "data.txt", Input: "empty"})
		add(gscen{Format: "xz", Name: "data.txt", Input: "small", Preset: "-6"})
		add(gscen{Decomp: true, Format: "xz", Name: "data", Input: "small"})
		return out
	}
	for _, f := range []string{"xz", "lzma"} {
		for _, in := range []string{"small", "corrupt", "truncated"} {
			for fl := 0; fl < 4; fl++ {
				add(gscen{Decomp: true, Format: f, Name: "-." + f, Input: in, Rel: true, Keep: fl&1 != 0, Force: fl&2 != 0})
			}
		}
		for fl := 0; fl < 4; fl++ {
			add(gscen{Format: f, Name: "data.txt", Input: "small", Existing: true, Link: true, Keep: fl&1 != 0, Force: fl&2 != 0})
			add(gscen{Decomp: true, Format: f, Name: "data." + f, Input: "small", Existing: true, Link: true, Keep: fl&1 != 0, Force: fl&2 != 0})
		}
		cat, un := map[string]string{"xz": "xzcat", "lzma": "glzcat"}[f], map[string]string{"xz": "ungxz", "lzma": "unlzma"}[f]
		for _, in := range []string{"small", "big", "corrupt", "truncated"} {
			add(gscen{Alias: cat, Decomp: true, Stdout: true, Format: f, Name: "data." + f, Input: in})
			add(gscen{Alias: un, Decomp: true, Format: f, Name: "data." + f, Input: in})
			add(gscen{Alias: un, Decomp: true, Format: f, Name: "data." + f, Input: in, Existing: true})
		}
		add(gscen{Decomp: true, Format: f, Name: "--." + f, Input: "small", Rel: true})
		add(gscen{Format: f, Name: "-d", Input: "small", Rel: true})
		add(gscen{Format: f, Name: "--", Input: "small", Rel: true})
	}
	for _, dec := range []bool{false, true} {
		for _, f := range []string{"xz", "lzma"} {
			for fl := 0; fl < 8; fl++ {
				names := []string{"data", "data.txt", "data." + f, "data.t" + map[string]string{"xz": "xz", "lzma": "lz"}[f], "data.dat"}
				for _, nm := range names {
					inputs := []string{"small", "big", "empty", "mixed"}
					if dec {
						inputs = append(inputs, "corrupt", "truncated", "truncated-aligned")
					}
					for _, in := range inputs {
						for _, ex := range []bool{false, true} {
							s := gscen{Decomp: dec, Format: f, Keep: fl&1 != 0, Force: fl&2 != 0, Stdout: fl&4 != 0, Name: nm, Input: in, Existing: ex}
							if s.Stdout && ex {
								continue
							}
							if in == "big" && (nm != "data.txt" && nm != "data."+f) {
								continue
							}
							if in == "empty" && fl != 0 {
								continue
							}
							add(s)
						}
					}
				}
			}
		}
	}
	return out
}

func checkC10(c *ev.Ctx) {
	c.SetRule("scenarios = {compress, decompress} x {xz, lzma} x flag sets over {-k,-f,-c} x file-name kinds (no / known / tar / unknown suffix) x inputs (small, 300 KiB incompressible, empty, corrupt, truncated) x target pre-existing or not. For each scenario the unmodified gxz binary runs under a ptrace syscall stepper: pass 0 records the M file-system syscalls touching the scenario directory (and stdout writes for -c); then for every i<=M: kill before i, kill after i, fail i with each errno meaningful for that call (once and persistently), and (never for -c runs) deliver SIGINT at i. After every run the directory is compared with invariants I1-I6 of DESIGN 4/C10. distinct non-trivial = distinct (scenario, injection) runs")
	c.Assume("crash points are the instants between file-system syscalls observed by ptrace; power-loss durability (no fsync) is outside the property", "the stepper sees every relevant syscall: checked per scenario by the self-check on the record pass")
	if gxzBinary() == "" {
		c.Inconclusive("gxz binary not built (VERIF_GXZ unset)")
		return
	}
	if _, err := os.Stat(sysstepBin(c)); err != nil {
		c.Inconclusive("sysstep not built; run setup.sh")
		return
	}
	if !stdoutDevOK() {
		c.Inconclusive("/dev/stdout missing before the run")
		return
	}
	base := filepath.Join(c.WorkDir, "c10", fmt.Sprintf("%s-%d-%d", c.Tier, c.Seed, os.Getpid()))
	os.RemoveAll(base)
	os.MkdirAll(base, 0o755)
	defer os.RemoveAll(base)
	gxzManyArgs(c, base)
	scens := c10Scenarios(c)
	c.Set("scenarios", len(scens))
	type job struct {
		s   gscen
		inj inject
	}
	var jobs []job
	recs := make([]gxzResult, len(scens))
	// pass 0: record
	par(len(scens), func(i int) {
		s := scens[i]
		dir := filepath.Join(base, s.ID+"-rec")
		s.setup(dir, c.Seed)
		recs[i] = runGxz(c, dir, s.args(dir), inject{Argv0: s.Alias}, s.Stdout, nil)
		os.RemoveAll(dir)
	})
	for i, s := range scens {
		rec := recs[i]
		jobs = append(jobs, job{s, inject{}})
		if rec.RunErr != "" || rec.Exit < 0 {
			c.Inconclusive(fmt.Sprintf("record pass of scenario %s failed: %s", s, rec.RunErr))
			continue
		}
		c.Count("syscalls_recorded", int64(len(rec.Events)))
		for _, e := range rec.Events {
			jobs = append(jobs, job{s, inject{Mode: "kill-before", N: e.I}}, job{s, inject{Mode: "kill-after", N: e.I}})
			// SIGINT exercises the handler path (temporary file removed, exit 7).  Never for -c runs:
			// as root the handler would unlink /dev/stdout (DESIGN 7a).
			if !s.Stdout && (thorough(c) || i%6 == 0) {
				jobs = append(jobs, job{s, inject{Mode: "signal", N: e.I, Errno: 2}})
			}
			for _, en := range errnoFor(e.Sys) {
				jobs = append(jobs, job{s, inject{Mode: "fail", N: e.I, Errno: en}})
				if e.Sys == "write" || e.Sys == "read" {
					jobs = append(jobs, job{s, inject{Mode: "fail", N: e.I, Errno: en, Persist: true}})
				}
			}
		}
	}
	c.MinEvals(int64(len(scens)))
	c.Exhaustive(true)
	c.Set("exhaustive_part", "crash and fault points per scenario (every recorded file-system syscall: kill before, kill after, each meaningful errno); the scenario list is a sample of the product (thorough: the full consistent product)")
	sysHist := map[string]int{}
	for _, r := range recs {
		for _, e := range r.Events {
			sysHist[e.Sys]++
		}
	}
	c.Set("syscalls_seen_in_record_passes", sysHist)
	par(len(jobs), func(ji int) {
		j := jobs[ji]
		s := j.s
		id := fmt.Sprintf("%s|%s", s.ID, j.inj)
		noteCase(id)
		if !want(c, id) {
			return
		}
		dir := filepath.Join(base, fmt.Sprintf("%s-%d", s.ID, ji))
		cin, plain, target, expectOK := s.setup(dir, c.Seed)
		res := runGxz(c, dir, s.args(dir), aliased(j.inj, s), s.Stdout, nil)
		snap := dirSnapshot(dir)
		// crash recovery: after a run that was killed the user runs the same command again in
		// the directory as it was left (debris included); judged below
		var res2 *gxzResult
		var snap2 map[string][]byte
		if j.inj.Mode == "kill-after" && res.Killed && !s.Stdout {
			r2 := runGxz(c, dir, s.args(dir), inject{Argv0: s.Alias}, false, nil)
			res2, snap2 = &r2, dirSnapshot(dir)
		}
		os.RemoveAll(dir)
		if j.inj.Mode == "signal" && res.RunErr == "" && res.Exit < 0 {
			// the stepper lost the exit status of a process that died from the signal
			// (default disposition, before gxz installed its handler): same as killed
			res.Killed = true
			res.Exit = 130
		}
		if res.RunErr != "" || res.Exit < 0 {
			c.Inconclusive(fmt.Sprintf("run %s of %s: %s", j.inj, s, res.RunErr))
			return
		}
		c.Eval(id, true)
		c.Count("runs:"+modeName(j.inj), 1)
		injected := false
		var trace []string
		for _, e := range res.Events {
			if e.Inject != "" {
				injected = true
			}
			trace = append(trace, fmt.Sprintf("%d:%s(%s%s)=%d%s", e.I, e.Sys, filepath.Base(e.Path), func() string {
				if e.Path2 != "" {
					return "->" + filepath.Base(e.Path2)
				}
				return ""
			}(), e.Ret, map[bool]string{true: "!" + e.Inject, false: ""}[e.Inject != ""]))
		}
		det := map[string]any{"case_id": id, "scenario": s.String(), "args": s.args("<dir>"), "injection": j.inj.String(), "exit": res.Exit, "killed": res.Killed,
			"stderr": clipStr(res.Stderr, 400), "directory_after": snapNames(snap), "syscalls": tail(trace, 40), "input_len": len(cin), "target": target}
		viol := func(sig, what string) {
			det["what"] = what
			c.Violation(sig, det)
		}
		if ji%211 == 0 {
			c.Sample(map[string]any{"scenario": s.String(), "injection": j.inj.String(), "exit": res.Exit, "killed": res.Killed, "directory_after": snapNames(snap), "last_syscalls": tail(trace, 6)})
		}
		inB, inOK := snap[s.Name]
		inputIntact := inOK && bytes.Equal(inB, cin)
		tgtB, tgtOK := []byte(nil), false
		if target != "" {
			tgtB, tgtOK = snap[target]
		}
		tgtComplete := tgtOK && s.complete(tgtB, cin, plain)
		pre := []byte("PRE-EXISTING TARGET CONTENT")
		if s.Link {
			pre = cin // the link at the target name resolves to the input
		}
		// I2: the input path never holds anything but C_in
		if inOK && !inputIntact {
			viol("I2-input-modified", fmt.Sprintf("the input path holds %d bytes that differ from the original %d bytes", len(inB), len(cin)))
		}
		if s.Extra {
			// the second input: untouched, or completely processed - never lost
			eb, eok := snap[s.extraName()]
			okExtra := eok && bytes.Equal(eb, extraContent)
			if !okExtra && !s.Decomp {
				if tb2, ok2 := snap[s.extraName()+"."+s.Format]; ok2 {
					var o []byte
					var err error
					if s.Format == "xz" {
						o, _, err = ref.DecodeXZ(tb2, 0)
					} else {
						o, _, err = ref.DecodeAlone(tb2, 0)
					}
					okExtra = err == nil && bytes.Equal(o, extraContent)
				}
			}
			if !okExtra {
				viol("I1-data-lost", fmt.Sprintf("the second input %q (named like the temporary file of the first) is present=%v intact=%v and has no complete output either", s.extraName(), eok, eok && bytes.Equal(eb, extraContent)))
			}
		}
		// I1: data exists in at least one complete form; target name differs from input name
		if !inputIntact && !tgtComplete {
			viol("I1-data-lost", fmt.Sprintf("after the run (%s, exit %d, killed %v) neither the input (present=%v intact=%v) nor a complete target %q (present=%v) exists", j.inj, res.Exit, res.Killed, inOK, inputIntact, target, tgtOK))
		}
		for _, e := range res.Events {
			if strings.HasPrefix(e.Sys, "rename") && e.Ret == 0 && e.Path2 == filepath.Join(dir, s.Name) {
				viol("I1-target-is-input", "gxz renamed its output over the input path")
			}
		}
		if res2 != nil && res2.RunErr == "" && res2.Exit >= 0 {
			// second run after the kill: the data must still exist in a complete form, the input
			// path must hold nothing but the input, and success may only be claimed with a
			// complete target in place (the run may also refuse, e.g. because of the debris)
			c.Count("reruns_after_kill", 1)
			in2, in2OK := snap2[s.Name]
			in2Intact := in2OK && bytes.Equal(in2, cin)
			t2, t2OK := []byte(nil), false
			if target != "" {
				t2, t2OK = snap2[target]
			}
			t2Complete := t2OK && s.complete(t2, cin, plain)
			det["rerun_exit"] = res2.Exit
			det["rerun_stderr"] = clipStr(res2.Stderr, 300)
			det["directory_after_rerun"] = snapNames(snap2)
			if in2OK && !in2Intact {
				viol("I2-input-modified", "after the re-run that followed the killed run the input path holds different bytes")
			}
			if !in2Intact && !t2Complete {
				viol("I1-data-lost", fmt.Sprintf("killed at %s, then run again (exit %d): neither the input (present=%v) nor a complete target %q (present=%v) exists", j.inj, res2.Exit, in2OK, target, t2OK))
			}
			if res2.Exit == 0 && !t2Complete {
				viol("I4-exit0-target-incomplete", fmt.Sprintf("killed at %s, then run again: exit 0 but target %q present=%v is not the complete output", j.inj, target, t2OK))
			}
			if res2.Exit == 0 {
				c.Count("reruns_after_kill_succeeded", 1)
			}
		}
		if res.Killed || (j.inj.Mode == "signal" && res.Exit >= 128) {
			// SIGKILL, or SIGINT before the handler was installed (default disposition)
			c.Count("killed_runs", 1)
			return
		}
		// I5: no temporary file remains.  Not demanded when the injected fault made the
		// removal of that very file fail: no program can satisfy that.
		tmpUnlinkFailed := false
		for _, e := range res.Events {
			if e.Inject != "" && strings.HasPrefix(e.Sys, "unlink") && hasSuffixAny(e.Path, ".compress", ".decompress") {
				tmpUnlinkFailed = true
			}
		}
		if tmpUnlinkFailed {
			c.Count("i5_exempt_injected_unlink_of_tempfile", 1)
		}
		for n := range snap {
			if tmpUnlinkFailed {
				break
			}
			if s.Extra && (n == s.extraName() || strings.HasPrefix(n, s.extraName())) {
				continue // the user's second file and what belongs to it
			}
			if strings.HasSuffix(n, ".compress") || strings.HasSuffix(n, ".decompress") {
				viol("I5-temp-file-left", fmt.Sprintf("temporary file %s remains after the run (exit %d, %s)", n, res.Exit, j.inj))
			}
		}
		if j.inj.Mode == "signal" {
			// An interrupted run is neither one of the failures the statement lists nor a
			// success: only I1, I2 and I5 are demanded of it.  (Observed, outside the
			// property: a SIGINT racing with the end of the run can make the handler
			// goroutine dereference the already cleared file and crash with exit 2 after
			// the work was completed; counted below, not a verdict.)
			c.Count("signal_runs_not_killed", 1)
			if strings.Contains(res.Stderr, "panic:") {
				c.Count("signal_runs_with_handler_panic_observed", 1)
			}
			return
		}
		if res.Exit != 0 {
			// I3
			if !inputIntact {
				viol("I3-failed-run-touched-input", fmt.Sprintf("exit %d but the input is %s", res.Exit, map[bool]string{true: "modified", false: "gone"}[inOK]))
			}
			if tgtOK && !tgtComplete && !(s.Existing && bytes.Equal(tgtB, pre)) {
				viol("I3-partial-target", fmt.Sprintf("exit %d and the target %q holds %d bytes that are neither the complete output nor its previous content", res.Exit, target, len(tgtB)))
			}
			if !injected && expectOK {
				viol("I6-unexpected-failure", fmt.Sprintf("run without faults exits %d: %s", res.Exit, clipStr(res.Stderr, 200)))
			}
			c.Count("failed_runs", 1)
			return
		}
		// exit 0: I4 and I6
		c.Count("successful_runs", 1)
		if !expectOK && !injected {
			viol("I6-failure-not-reported", fmt.Sprintf("scenario must fail (%s) but gxz exits 0; directory: %v", s, snapNames(snap)))
			return
		}
		if s.Stdout {
			if !s.complete(res.Stdout, cin, plain) {
				viol("I4-stdout-incomplete", fmt.Sprintf("exit 0 with -c but standard output (%d bytes) is not the complete result", len(res.Stdout)))
			}
			if !inputIntact {
				viol("I4-input-removed-with-c", "exit 0 with -c but the input is gone")
			}
			if len(snap) != 1 {
				viol("I4-c-created-files", fmt.Sprintf("-c run left %v", snapNames(snap)))
			}
			return
		}
		if !tgtComplete {
			viol("I4-exit0-target-incomplete", fmt.Sprintf("exit 0 but target %q present=%v is not the complete output (%s)", target, tgtOK, j.inj))
		}
		if s.Keep != inOK {
			viol("I4-input-removal", fmt.Sprintf("exit 0, -k=%v, but input present=%v (%s)", s.Keep, inOK, j.inj))
		}
	})
	// stepper self-check on a plain successful run
	for i, s := range scens {
		if s.Decomp || s.Keep || s.Stdout || s.Existing || s.Input != "small" || strings.Contains(s.Name, ".t") && s.Name != "data.txt" {
			continue
		}
		ren, unl := 0, 0
		for _, e := range recs[i].Events {
			if strings.HasPrefix(e.Sys, "rename") && e.Ret == 0 {
				ren++
			}
			if strings.HasPrefix(e.Sys, "unlink") && e.Ret == 0 && filepath.Base(e.Path) == s.Name {
				unl++
			}
		}
		if recs[i].Exit == 0 && (ren != 1 || unl != 1) {
			c.Inconclusive(fmt.Sprintf("stepper self-check: record pass of %s shows %d renames and %d input unlinks", s, ren, unl))
		}
		c.Count("stepper_selfchecks", 1)
	}
	// second opinion on the stepper itself: strace (-f -y) must see the same sequence of counted
	// syscalls on the scenario directory, and no file or descriptor syscall the stepper does not know
	for i, s := range scens {
		if s.Stdout || s.Existing || s.Input != "small" || s.Keep || s.Force || s.Rel || s.Extra || s.Alias != "" || c.ReplayOf != "" {
			continue
		}
		if c.Counter("strace_crosschecks") >= 4 {
			break
		}
		dir := filepath.Join(base, s.ID+"-strace")
		s.setup(dir, c.Seed)
		names, err := straceNames(dir, s.args(dir))
		os.RemoveAll(dir)
		if err != nil {
			c.Count("strace_unavailable", 1)
			break
		}
		var got, unknown []string
		for _, n := range names {
			switch {
			case sysstepKnown[n]:
				got = append(got, n)
			case !straceBenign[n]:
				unknown = append(unknown, n)
			}
		}
		var want []string
		for _, e := range recs[i].Events {
			want = append(want, e.Sys)
		}
		if len(unknown) > 0 {
			c.Inconclusive(fmt.Sprintf("stepper blind spot: gxz used %v on the scenario directory (%s); tools/sysstep.c does not count these", unknown, s))
		}
		if strings.Join(got, " ") != strings.Join(want, " ") {
			c.Inconclusive(fmt.Sprintf("stepper and strace disagree on %s: strace %v, sysstep %v", s, got, want))
		}
		c.Count("strace_crosschecks", 1)
		c.Count("strace_crosscheck_syscalls_compared", int64(len(got)))
	}
	if !stdoutDevOK() {
		c.Inconclusive("/dev/stdout disappeared during the run (harness safety rule violated)")
	}
}

func modeName(j inject) string {
	if j.Mode == "" {
		return "plain"
	}
	if j.Mode == "fail" && j.Persist {
		return "fail-persistent"
	}
	return j.Mode
}

func aliased(j inject, s gscen) inject {
	j.Argv0 = s.Alias
	return j
}
