package main

import (
	"fmt"
	"io"
	"sort"
	"strings"

	"github.com/ulikunitz/xz"
	"github.com/ulikunitz/xz/lzma"

	"verif/internal/ev"
	"verif/internal/gen"
	"verif/internal/mon"
	"verif/internal/prng"
	"verif/internal/ref"
)

// xzCase is one (configuration, input, partition) case of the xz writer
// workload shared by C01, C02, C17 and the writer side of C16.
type xzCase struct {
	ID         string
	LC, LP, PB int
	DictCap    int    // 0 = default
	BufSize    int    // 0 = default
	BlockSize  int64  // 0 = default
	Check      string // "crc32","crc64","sha256","none","default"
	Matcher    int
	Family     string
	N          int
	Part       string
	Seed       uint64
}

func (k xzCase) config() xz.WriterConfig {
	c := xz.WriterConfig{
		Properties: &lzma.Properties{LC: k.LC, LP: k.LP, PB: k.PB},
		DictCap:    k.DictCap, BufSize: k.BufSize, BlockSize: k.BlockSize,
		Matcher: lzma.MatchAlgorithm(k.Matcher),
	}
	switch k.Check {
	case "crc32":
		c.CheckSum = xz.CRC32
	case "crc64":
		c.CheckSum = xz.CRC64
	case "sha256":
		c.CheckSum = xz.SHA256
	case "none":
		c.NoCheckSum = true
	}
	return c
}

// life tells how the caller arrives at the configuration value (a function of the case seed):
// most cases build it as a fresh literal; the others go through what a program that keeps a
// configuration variable around does - Verify (which fills defaults into the caller's struct)
// and then set fields, reuse of the variable for a second writer, a copy of an earlier writer's
// embedded configuration, and a Properties value that the caller changes after NewWriter
// returned.  The writer must in every case behave as configured at the time of NewWriter.
func (k xzCase) life() int {
	switch k.Seed % 10 {
	case 4:
		return 4 // Verify, then set the fields
	case 5:
		return 5 // variable reused after an earlier writer
	case 6:
		return 6 // copy of an earlier writer's WriterConfig
	case 7:
		return 7 // Properties changed by the caller after NewWriter
	}
	return 0
}

var lifeNames = map[int]string{0: "literal", 4: "verify-then-set", 5: "variable-reused", 6: "copy-of-writer-config", 7: "properties-changed-after-new"}

// newWriterLife creates the writer of the case along its configuration lifecycle.
func (k xzCase) newWriterLife(sink io.Writer) (*xz.Writer, error) {
	final := k.config()
	set := func(cfg *xz.WriterConfig) {
		cfg.Properties, cfg.DictCap, cfg.BufSize, cfg.BlockSize = final.Properties, final.DictCap, final.BufSize, final.BlockSize
		cfg.CheckSum, cfg.NoCheckSum, cfg.Matcher = final.CheckSum, final.NoCheckSum, final.Matcher
	}
	base := xz.WriterConfig{DictCap: 4096, Properties: &lzma.Properties{LC: 1, LP: 1, PB: 1}}
	switch k.life() {
	case 4:
		cfg := base
		if err := cfg.Verify(); err != nil {
			return nil, err
		}
		// a caller sets what it wants to differ and leaves the rest as Verify filled it
		cfg.Properties, cfg.DictCap, cfg.Matcher = final.Properties, final.DictCap, final.Matcher
		if final.BufSize != 0 {
			cfg.BufSize = final.BufSize
		}
		if final.BlockSize != 0 {
			cfg.BlockSize = final.BlockSize
		}
		if final.CheckSum != 0 {
			cfg.CheckSum = final.CheckSum
		}
		cfg.NoCheckSum = final.NoCheckSum
		return cfg.NewWriter(sink)
	case 5, 6:
		cfg := base
		cfg.CheckSum = xz.CRC32
		w0, err := cfg.NewWriter(io.Discard)
		if err != nil {
			return nil, err
		}
		w0.Write([]byte("an earlier stream written with the same configuration variable"))
		w0.Close()
		if k.life() == 6 {
			cfg = w0.WriterConfig
		}
		set(&cfg)
		return cfg.NewWriter(sink)
	case 7:
		pv := *final.Properties
		cfg := final
		cfg.Properties = &pv
		w, err := cfg.NewWriter(sink)
		pv = lzma.Properties{LC: (pv.LC + 1) % 3, LP: (pv.LP + 1) % 2, PB: (pv.PB + 2) % 5} // the caller retunes its variable
		cfg.DictCap, cfg.BlockSize, cfg.CheckSum = 1<<22, 77, xz.SHA256                     // and the struct it passed by value
		return w, err
	}
	return final.NewWriter(sink)
}

func (k xzCase) checkID() byte {
	switch k.Check {
	case "crc32":
		return ref.CheckCRC32
	case "sha256":
		return ref.CheckSHA256
	case "none":
		return ref.CheckNone
	}
	return ref.CheckCRC64
}

func (k xzCase) effDict() int {
	if k.DictCap == 0 {
		return 8 << 20
	}
	return k.DictCap
}
func (k xzCase) effBuf() int {
	if k.BufSize == 0 {
		return 4096
	}
	return k.BufSize
}

func (k xzCase) data() []byte {
	return gen.Data(prng.New(k.Seed, 1), k.Family, k.N)
}

func (k xzCase) partition(n int) []int {
	edges := []int{273, 4096, k.effDict(), k.effDict() + k.effBuf(), 65536, 1 << 21}
	if k.BlockSize > 0 && k.BlockSize < 1<<30 {
		edges = append(edges, int(k.BlockSize), 2*int(k.BlockSize))
	}
	sort.Ints(edges)
	return gen.Partition(prng.New(k.Seed, 2), k.Part, n, edges)
}

func (k xzCase) class() string {
	return fmt.Sprintf("lc%d-lp%d-pb%d|d%s|b%d|bs%s|%s|m%d|%s|%s", k.LC, k.LP, k.PB,
		sizeClass(k.effDict()), k.effBuf(), sizeClass(int(min64(k.BlockSize, 1<<31-1))), k.Check, k.Matcher, k.Family, k.Part)
}

func min64(a, b int64) int64 {
	if a < b {
		return a
	}
	return b
}

func sizeClass(n int) string {
	switch {
	case n == 0:
		return "dflt"
	case n < 16:
		return fmt.Sprint(n)
	case n <= 4096:
		return "le4k"
	case n < 65536:
		return "lt64k"
	case n == 65536:
		return "64k"
	case n <= 1<<20:
		return "le1m"
	}
	return "gt1m"
}

func (k xzCase) desc() map[string]any {
	return map[string]any{"case_id": k.ID, "lc": k.LC, "lp": k.LP, "pb": k.PB, "dictcap": k.DictCap, "bufsize": k.BufSize,
		"blocksize": k.BlockSize, "check": k.Check, "matcher": k.Matcher, "family": k.Family, "n": k.N, "partition": k.Part, "data_seed": k.Seed, "config_lifecycle": lifeNames[k.life()]}
}

var lclp = [][2]int{{0, 0}, {1, 0}, {2, 0}, {3, 0}, {4, 0}, {0, 1}, {1, 1}, {2, 1}, {3, 1}, {0, 2}, {1, 2}, {2, 2}, {0, 3}, {1, 3}, {0, 4}}
var dictCaps = []int{4096, 4097, 5000, 8192, 32768, 65535, 65536, 1 << 20}
var bufSizes = []int{273, 274, 300, 0, 65536}
var blockSizes = []int64{1, 2, 7, 100, 4096, 65536, 100000, 0}
var checkKinds = []string{"crc32", "crc64", "sha256", "none", "default"}
var partKinds = []string{"one", "random", "zerolen", "bytes", "edges", "iocopy"}

// xzCases builds the deterministic case list for a tier.
func xzCases(seed uint64, label uint64, count int, big bool) []xzCase {
	r := prng.New(seed, label)
	var out []xzCase
	mk := func(i int) xzCase {
		k := xzCase{ID: fmt.Sprintf("x%d", i), Seed: r.U64()}
		pp := lclp[r.Intn(len(lclp))]
		k.LC, k.LP, k.PB = pp[0], pp[1], r.Intn(5)
		k.DictCap = dictCaps[r.Intn(len(dictCaps))]
		k.BufSize = bufSizes[r.Intn(len(bufSizes))]
		k.BlockSize = blockSizes[r.Intn(len(blockSizes))]
		k.Check = checkKinds[r.Intn(len(checkKinds))]
		k.Matcher = r.Intn(2)
		k.Family = gen.Families[r.Intn(len(gen.Families))]
		k.Part = partKinds[r.Intn(len(partKinds))]
		return k
	}
	for i := 0; i < count; i++ {
		k := mk(i)
		// systematic sweeps: every value of every dimension at least once
		switch {
		case i < 75:
			k.LC, k.LP, k.PB = lclp[i%15][0], lclp[i%15][1], i/15
		case i < 75+len(dictCaps):
			k.DictCap = dictCaps[i-75]
		case i < 90:
			k.BufSize = bufSizes[(i-83)%len(bufSizes)]
		case i < 100:
			k.BlockSize = blockSizes[(i-90)%len(blockSizes)]
		case i < 105:
			k.Check = checkKinds[i-100]
		case i < 105+len(gen.Families)*2:
			k.Family = gen.Families[(i-105)/2]
			k.Matcher = (i - 105) % 2
		}
		if i >= 200 && i%16 == 7 {
			// whole lc/lp space; cases the library's Verify rejects are dropped below
			k.LC, k.LP = r.Intn(9), r.Intn(5)
		}
		k.N = pickLen(r, k)
		constrain(&k, big)
		if i >= 200 && i%16 == 11 && k.LC+k.LP <= 4 && k.Part != "bytes" {
			// content built against the range coder's arithmetic under this case's properties
			// (see gen "carry:"): runs of held-back bytes in the first chunk of a block, some of
			// them tens of KiB into the chunk; n is ignored
			rr := prng.New(seed, label, 98, uint64(i)) // own generator: the other draws stay as they were
			k.Family = fmt.Sprintf("carry:%d%d%d:%d:%d:%s:%d", k.LC, k.LP, k.PB, rr.Pick(0, 30, 300, 1500, -20000, -50000), rr.Pick(6, 12, 40, 150), []string{"c", "n"}[rr.Intn(2)], rr.Pick(64, 64, 128))
			k.N = 0
			if k.BlockSize > 0 && k.BlockSize < 4096 {
				k.BlockSize = 0
			}
		}
		if k.LC+k.LP > 4 {
			cfg := k.config()
			if cfg.Verify() != nil {
				continue
			}
		}
		out = append(out, k)
	}
	return out
}

func pickLen(r *prng.R, k xzCase) int {
	d, b := k.effDict(), k.effBuf()
	cands := []int{0, 1, 2, 3, 4, 5, 100, 272, 273, 274, 4095, 4096, 4097, d - 1, d, d + 1, d + b - 1, d + b, d + b + 1,
		65535, 65536, 65537, 100000, 200000, 300000, r.Range(0, 5000), r.Range(0, 300000)}
	if k.BlockSize > 1 && k.BlockSize < 1<<20 {
		cands = append(cands, int(k.BlockSize)-1, int(k.BlockSize), int(k.BlockSize)+1, 3*int(k.BlockSize)+1)
	}
	return cands[r.Intn(len(cands))]
}

// constrain keeps a case affordable: the quantifier is unchanged, only the
// sampling of expensive corners is thinned.
func constrain(k *xzCase, big bool) {
	if k.Family == "empty" {
		k.N = 0
	}
	if k.Family == "one" {
		k.N = 1
	}
	if (k.Family == "sandwich" || k.Family == "sandwich2") && k.N < 280000 && k.Part != "bytes" {
		k.N = 280000 + k.N%20000 // the raw chunk in the middle needs > 128 KiB of incompressible data
		if k.BlockSize > 0 && k.BlockSize < 1<<20 {
			k.BlockSize = 0
		}
	}
	// a new LZMA2 encoder (dictionary + matcher tables) is allocated per block
	if k.BlockSize > 0 {
		perBlock := k.effDict() * 6
		if k.Matcher == 1 {
			perBlock = k.effDict() * 18
		}
		maxBlocks := 400 << 20 / perBlock
		if maxBlocks > 3000 {
			maxBlocks = 3000
		}
		if int64(k.N) > k.BlockSize*int64(maxBlocks) {
			k.N = int(k.BlockSize * int64(maxBlocks))
		}
	}
	// the binary tree degenerates on long runs of equal bytes (quadratic)
	if k.Matcher == 1 {
		lim := 300000
		switch k.Family {
		case "sandwich", "sandwich2", "noisyrep":
			lim = 300000
		case "zeros", "run", "zeroprefix", "periodic", "lowent", "altseg", "nearrep", "maxrun", "randzeros", "shortruns", "ascwords", "descwords":
			lim = 12000
			if big {
				lim = 40000
			}
		}
		if k.N > lim {
			k.N = lim
		}
	}
	if k.Part == "bytes" && k.N > 3000 {
		k.N = 3000
	}
	if k.N > 300000 && !big && !strings.HasPrefix(k.ID, "big") {
		k.N = 300000
	}
}

// xzRun is the observed execution of one case at the writer boundary.
type xzRun struct {
	Data       []byte
	Sink       *mon.Sink
	NewErr     error
	WriteErr   string // first deviation of a Write/Close from (len(p), nil)
	Panic      *mon.Panic
	AfterClose string // deviation of the calls made after Close
	Calls      int
}

// runXZWriter executes the case: NewWriter, the partitioned writes, Close, then
// Write and Close after Close.
func runXZWriter(k xzCase) *xzRun {
	run := &xzRun{Data: k.data(), Sink: mon.NewSink()}
	cfg := k.config()
	if err := cfg.Verify(); err != nil {
		run.NewErr = fmt.Errorf("config rejected by Verify: %w", err)
		return run
	}
	cfg = k.config()
	run.Panic = mon.Guard(func() {
		// what the writer is connected to (by case seed): the recording sink, a *bufio.Writer in
		// front of it, a *bytes.Buffer
		target, finish := sinkKind(k.Seed>>7, run.Sink)
		defer finish()
		w, err := k.newWriterLife(target)
		if err != nil {
			run.NewErr = err
			return
		}
		if k.Part == "iocopy" {
			// the data reaches the writer through io.Copy from a source without WriteTo that
			// returns its last bytes together with io.EOF (an optional io.ReaderFrom of the
			// writer would be used here)
			src := mon.NewSource(run.Data)
			src.Frag = "eofwith"
			fr := prng.New(k.Seed, 3)
			src.Next = func(max int) int { return fr.Range(1, 1+fr.Pick(300, 5000, 40000)) }
			n, err := io.Copy(w, struct{ io.Reader }{src})
			run.Calls++
			if n != int64(len(run.Data)) || err != nil {
				run.WriteErr = fmt.Sprintf("io.Copy of %d bytes into the writer returned (%d, %v)", len(run.Data), n, err)
				return
			}
		}
		pos := 0
		for i, l := range k.partition(len(run.Data)) {
			if k.Part == "iocopy" {
				break
			}
			n, err := callerWrite(w, run.Data[pos:pos+l], k.Seed>>3+uint64(i))
			run.Calls++
			if (n != l || err != nil) && run.WriteErr == "" {
				run.WriteErr = fmt.Sprintf("Write #%d of %d bytes at offset %d returned (%d, %v)", i, l, pos, n, err)
				return
			}
			pos += l
		}
		if err := w.Close(); err != nil {
			run.WriteErr = fmt.Sprintf("Close returned %v", err)
			return
		}
		finish()
		before := len(run.Sink.Buf)
		var dev []string
		n, err := w.Write([]byte("after close"))
		if n != 0 || err == nil {
			dev = append(dev, fmt.Sprintf("Write after Close returned (%d, %v)", n, err))
		}
		n, err = w.Write(nil)
		if n != 0 || err == nil {
			dev = append(dev, fmt.Sprintf("empty Write after Close returned (%d, %v)", n, err))
		}
		if err := w.Close(); err == nil {
			dev = append(dev, "second Close returned nil")
		}
		finish()
		if len(run.Sink.Buf) != before {
			dev = append(dev, fmt.Sprintf("calls after Close emitted %d bytes", len(run.Sink.Buf)-before))
		}
		run.AfterClose = strings.Join(dev, "; ")
	})
	return run
}

// chunkKindSet summarises the LZMA2 chunk kinds of an emitted stream.
func chunkKindSet(stream []byte) (set string, blocks int) {
	bl, err := ref.WalkXZ(stream)
	if err != nil {
		return "unparsed", len(bl)
	}
	seen := map[string]bool{}
	for _, b := range bl {
		for _, c := range b {
			seen[c.Kind] = true
		}
	}
	var l []string
	for k := range seen {
		l = append(l, k)
	}
	sort.Strings(l)
	return strings.Join(l, "+"), len(bl)
}

func inputDetail(d map[string]any, data []byte) {
	d["input_len"] = len(data)
	d["input_hex"] = ev.Hex(data, 512)
}
