package main

import (
	"bytes"
	"fmt"

	"github.com/ulikunitz/xz"
	"github.com/ulikunitz/xz/lzma"

	"verif/internal/ev"
	"verif/internal/gen"
	"verif/internal/lzc"
	"verif/internal/prng"
	"verif/internal/ref"
)

func init() { register("SELFTEST", "other", selfTest) }

// selfTest is the development-time differential test of the reference against
// liblzma and the library (not a property check).
func selfTest(c *ev.Ctx) {
	c.SetRule("differential self-test of the reference implementation")
	r := prng.New(c.Seed, 999)
	bad := 0
	report := func(f string, a ...any) {
		bad++
		if bad < 15 {
			fmt.Printf("SELFTEST-FAIL: "+f+"\n", a...)
		}
	}
	// 1. library-written xz decoded by ref (and liblzma)
	for i := 0; i < 300; i++ {
		fam := gen.Families[r.Intn(len(gen.Families))]
		data := gen.Data(r, fam, r.Pick(0, 1, 5, 100, 1000, 20000, 100000))
		cfg := xz.WriterConfig{DictCap: r.Pick(4096, 8192, 65536, 1<<20), BufSize: r.Pick(273, 4096),
			Properties: &lzma.Properties{LC: r.Intn(5), LP: 0, PB: r.Intn(5)},
			BlockSize:  int64(r.Pick(0, 0, 1000, 70000)), CheckSum: byte(r.Pick(1, 4, 10)), Matcher: lzma.MatchAlgorithm(r.Intn(2))}
		if cfg.Properties.LC < 4 {
			cfg.Properties.LP = r.Intn(5 - cfg.Properties.LC)
		}
		var buf bytes.Buffer
		w, err := cfg.NewWriter(&buf)
		if err != nil {
			report("NewWriter: %v", err)
			continue
		}
		w.Write(data)
		w.Close()
		out, _, err := ref.DecodeXZ(buf.Bytes(), 0)
		if err != nil || !bytes.Equal(out, data) {
			report("ref.DecodeXZ on library output (%s,%d): %v equal=%v", fam, len(data), err, bytes.Equal(out, data))
		}
		if lzc.Available() {
			res := lzc.DecodeXZ(buf.Bytes(), false, 0)
			if !res.OK() || !bytes.Equal(res.Out, data) {
				report("liblzma on library output: %v", res.Err())
			}
		}
		c.Eval("lib-xz-"+fam, true)
	}
	// 2. generated LZMA2 streams: ref decodes own encodings; liblzma and library agree
	for i := 0; i < 400; i++ {
		plan := ref.LZMA2Plan{DictSize: int64(r.Pick(4096, 8192, 65536)), NChunks: r.Range(1, 6), OpsPer: r.Pick(5, 50, 500, 3000), BigChunk: i%40 == 0}
		stream, content, info := ref.GenLZMA2(r, plan)
		out, inf, err := ref.DecodeLZMA2(stream, plan.DictSize, false, 0)
		if err != nil || !bytes.Equal(out, content) || inf.Consumed != len(stream) {
			report("ref.DecodeLZMA2 on generated stream %d %v: %v", i, info.Chunks, err)
			continue
		}
		if lzc.Available() {
			res := lzc.DecodeRawLZMA2(stream, uint32(plan.DictSize), 0)
			if !res.OK() || !bytes.Equal(res.Out, content) {
				report("liblzma raw LZMA2 on generated stream %d %v: %v", i, info.Chunks, res.Err())
			}
		}
		lo, lerr := libLZMA2(stream, int(plan.DictSize))
		if lerr != nil || !bytes.Equal(lo, content) {
			report("library Reader2 on generated stream %d %v: %v", i, info.Chunks, lerr)
		}
		c.Eval(fmt.Sprint("gen2-", info.Chunks), true)
	}
	// 3. generated .lzma
	for i := 0; i < 400; i++ {
		mode := i % 3
		stream, content, info := ref.GenAlone(r, mode, r.Pick(0, 1, 10, 200, 3000))
		out, ai, err := ref.DecodeAlone(stream, 0)
		if err != nil || !bytes.Equal(out, content) || ai.Consumed != len(stream) {
			report("ref.DecodeAlone on generated stream %d mode %d: %v", i, mode, err)
			continue
		}
		p := info.Props[0]
		if lzc.Available() && p.LC+p.LP <= 4 {
			res := lzc.DecodeAlone(stream, 0)
			if !res.OK() || !bytes.Equal(res.Out, content) {
				report("liblzma alone on generated stream %d mode %d props %v: %v", i, mode, p, res.Err())
			}
		}
		lo, lerr := libLZMA(stream)
		if lerr != nil || !bytes.Equal(lo, content) {
			report("library lzma.Reader on generated stream %d mode %d props %v len %d: %v", i, mode, p, len(content), lerr)
		}
		c.Eval(fmt.Sprint("genalone-", mode, p), true)
	}
	// 4. liblzma-encoded streams decoded by ref
	if lzc.Available() {
		for i := 0; i < 200; i++ {
			fam := gen.Families[r.Intn(len(gen.Families))]
			data := gen.Data(r, fam, r.Pick(0, 1, 100, 5000, 200000))
			o := lzc.EncOpts{Kind: lzc.KindXZ, Preset: r.Intn(10), Check: r.Pick(0, 1, 4, 10)}
			if r.Bool() {
				o.Custom = true
				o.Dict = uint32(r.Pick(4096, 65536, 1<<20))
				o.LC = r.Intn(5)
				o.LP = r.Intn(5 - o.LC)
				o.PB = r.Intn(5)
				o.ModeNormal = r.Bool()
				o.Nice = r.Range(2, 273)
				o.MF = r.Intn(5)
				if !o.ModeNormal && o.MF >= 2 {
					o.MF = r.Intn(2)
				}
			}
			res := lzc.Encode(data, o)
			if !res.OK() {
				report("liblzma encode: %v %+v", res.Err(), o)
				continue
			}
			out, _, err := ref.DecodeXZ(res.Out, 0)
			if err != nil || !bytes.Equal(out, data) {
				report("ref.DecodeXZ on liblzma output: %v", err)
			}
			o.Kind = lzc.KindAlone
			res = lzc.Encode(data, o)
			if res.OK() {
				out, _, err := ref.DecodeAlone(res.Out, 0)
				if err != nil || !bytes.Equal(out, data) {
					report("ref.DecodeAlone on liblzma output: %v", err)
				}
			}
			c.Eval("lzc-"+fam, true)
		}
	}
	c.Set("failures", bad)
	c.Set("liblzma", lzc.Version())
	if bad > 0 {
		c.Violation("selftest", map[string]any{"what": fmt.Sprintf("%d reference self-test failures", bad)})
	}
}
