package main

import (
	"bytes"
	"fmt"
	"io"

	"github.com/ulikunitz/xz"
	"github.com/ulikunitz/xz/lzma"

	"verif/internal/ev"
	"verif/internal/gen"
	"verif/internal/lzc"
	"verif/internal/mon"
	"verif/internal/prng"
	"verif/internal/ref"
)

// defaultCtors exercises the convenience constructors (xz.NewWriter / NewReader,
// lzma.NewWriter / NewReader, lzma.NewWriter2 / NewReader2: what most callers use, with every
// configuration field defaulted) for one format: write, close, read back with the default
// reader, and have the reference decoder (and liblzma) judge the bytes.  Statement coverage of
// the quick tiers showed that the generated configurations never went through these entry
// points and their default-filling code.
func defaultCtors(c *ev.Ctx, format string) {
	fams := []string{"text", "sandwich2", "lowent", "empty", "random"}
	par(len(fams), func(i int) {
		id := fmt.Sprintf("default-%s-%s", format, fams[i])
		noteCase(id)
		if !want(c, id) {
			return
		}
		r := prng.New(c.Seed, 160, uint64(i))
		data := gen.Data(r, fams[i], r.Pick(3000, 290000))
		sink := mon.NewSink()
		var out []byte
		var werr, rerr error
		pn := mon.Guard(func() {
			var w io.WriteCloser
			switch format {
			case "xz":
				w, werr = xz.NewWriter(sink)
			case "lzma":
				w, werr = lzma.NewWriter(sink)
			default:
				w, werr = lzma.NewWriter2(sink)
			}
			if werr != nil {
				return
			}
			if n, err := w.Write(data); n != len(data) || err != nil {
				werr = fmt.Errorf("Write returned (%d, %v)", n, err)
				return
			}
			if werr = w.Close(); werr != nil {
				return
			}
			var rd io.Reader
			switch format {
			case "xz":
				rd, rerr = xz.NewReader(bytes.NewReader(sink.Buf))
			case "lzma":
				rd, rerr = lzma.NewReader(bytes.NewReader(sink.Buf))
			default:
				rd, rerr = lzma.NewReader2(bytes.NewReader(sink.Buf))
			}
			if rerr != nil {
				return
			}
			out, rerr = io.ReadAll(rd)
		})
		c.Eval("default-constructors|"+format+"|"+fams[i], len(data) > 0)
		c.Count("default_constructor_round_trips", 1)
		det := map[string]any{"case_id": id, "format": format, "family": fams[i], "input_len": len(data), "output_len": len(sink.Buf)}
		switch {
		case pn != nil:
			det["what"] = "panic with the default constructors: " + pn.Value
			c.Violation("default-constructors", det)
			return
		case werr != nil || rerr != nil || !bytes.Equal(out, data):
			det["what"] = fmt.Sprintf("round trip through the default constructors of %s: write error %v, read error %v, %d of %d bytes (first difference %d)", format, werr, rerr, len(out), len(data), firstDiff(out, data))
			c.Violation("default-constructors", det)
			return
		}
		var ro []byte
		var err error
		switch format {
		case "xz":
			ro, _, err = ref.DecodeXZ(sink.Buf, 0)
		case "lzma":
			ro, _, err = ref.DecodeAlone(sink.Buf, 0)
		default:
			ro, _, err = ref.DecodeLZMA2(sink.Buf, 8<<20, false, 0)
		}
		if err != nil || !bytes.Equal(ro, data) {
			det["what"] = fmt.Sprintf("the reference decoder does not recover the input from the default writer's output: %v", err)
			c.Violation("default-constructors", det)
			return
		}
		if lzc.Available() {
			var res lzc.Result
			switch format {
			case "xz":
				res = lzc.DecodeXZ(sink.Buf, false, 0)
			case "lzma":
				res = lzc.DecodeAlone(sink.Buf, 0)
			default:
				res = lzc.DecodeRawLZMA2(sink.Buf, 8<<20, 0)
			}
			if !res.OK() || !bytes.Equal(res.Out, data) {
				det["what"] = fmt.Sprintf("liblzma does not recover the input from the default writer's output: %v", res.Err())
				c.Violation("default-constructors", det)
			}
		}
	})
}
