package main

import (
	"bytes"
	"fmt"
	"io"

	"github.com/ulikunitz/xz/lzma"

	"verif/internal/ev"
	"verif/internal/gen"
	"verif/internal/mon"
	"verif/internal/prng"
	"verif/internal/ref"
)

func init() { register("C06", "exploration", checkC06) }

// lzCase is one classic-LZMA writer case.
type lzCase struct {
	ID         string
	LC, LP, PB int
	DictCap    int
	BufSize    int
	Matcher    int
	Mode       int // 0 marker only (no size), 1 size only, 2 size and marker
	ByteSink   bool
	Family     string
	N          int
	Part       string
	Seed       uint64
}

func (k lzCase) config(size int64) lzma.WriterConfig {
	c := lzma.WriterConfig{Properties: &lzma.Properties{LC: k.LC, LP: k.LP, PB: k.PB}, DictCap: k.DictCap, BufSize: k.BufSize, Matcher: lzma.MatchAlgorithm(k.Matcher)}
	switch k.Mode {
	case 1:
		c.SizeInHeader, c.Size = true, size
	case 2:
		c.SizeInHeader, c.Size, c.EOSMarker = true, size, true
	}
	return c
}

func (k lzCase) desc() map[string]any {
	return map[string]any{"case_id": k.ID, "lc": k.LC, "lp": k.LP, "pb": k.PB, "dictcap": k.DictCap, "bufsize": k.BufSize, "matcher": k.Matcher,
		"mode": []string{"marker-only", "size-only", "size+marker"}[k.Mode], "bytewriter_sink": k.ByteSink, "family": k.Family, "n": k.N, "partition": k.Part, "data_seed": k.Seed}
}

func (k lzCase) class() string {
	return fmt.Sprintf("p%d|d%s|b%d|m%d|mode%d|bs%v|%s|%s", (k.PB*5+k.LP)*9+k.LC, sizeClass(k.DictCap), k.BufSize, k.Matcher, k.Mode, k.ByteSink, k.Family, k.Part)
}

func lzCases(seed, label uint64, count int, lclp4 bool) []lzCase {
	r := prng.New(seed, label)
	var out []lzCase
	for i := 0; i < count; i++ {
		k := lzCase{ID: fmt.Sprintf("l%d", i), Seed: r.U64()}
		code := r.Intn(225)
		if i < 450 {
			code = i % 225 // every property code with both matchers
			k.Matcher = i / 225
		} else {
			k.Matcher = r.Intn(2)
		}
		k.LC, k.LP, k.PB = code%9, (code/9)%5, code/45
		if lclp4 && k.LC+k.LP > 4 {
			pp := lclp[r.Intn(len(lclp))]
			k.LC, k.LP = pp[0], pp[1]
		}
		k.DictCap = dictCaps[r.Intn(len(dictCaps))]
		k.BufSize = r.Pick(273, 274, 300, 4096, 65536)
		k.Mode = r.Intn(3)
		k.ByteSink = r.Bool()
		k.Family = gen.Families[r.Intn(len(gen.Families))]
		k.Part = partKinds[r.Intn(len(partKinds))]
		k.N = r.Pick(0, 0, 1, 2, 3, 5, 100, 273, 274, 4096, 4097, k.DictCap+1, k.DictCap+k.BufSize+1, 70000, r.Range(0, 3000), r.Range(0, 200000))
		if i < 450 {
			k.N = r.Pick(0, 1, 7, 300, 2000)
		}
		if k.Family == "empty" {
			k.N = 0
		}
		if k.Family == "one" {
			k.N = 1
		}
		if k.Matcher == 1 {
			lim := 200000
			switch k.Family {
			case "zeros", "run", "zeroprefix", "periodic", "lowent", "altseg", "nearrep", "maxrun", "randzeros", "shortruns", "ascwords", "descwords":
				lim = 12000
			}
			if k.N > lim {
				k.N = lim
			}
		}
		if k.Part == "bytes" && k.N > 3000 {
			k.N = 3000
		}
		if i >= 450 && i%47 == 5 {
			// runs of a few to a few hundred equal bytes between other data, many revolutions of
			// a small ring (dictionary + look-ahead + 1 bytes), hash-table matcher: overlapping
			// matches that straddle the physical end of the ring buffer
			rr := prng.New(seed, label, 97, uint64(i))
			k.DictCap, k.BufSize, k.Matcher = rr.Pick(4096, 4096, 5000), rr.Pick(4096, 273, 300), 0
			k.Family, k.N, k.Part = []string{"shortruns", "lowent", "maxrun", "altseg"}[rr.Intn(4)], rr.Pick(40000, 90000), []string{"one", "random"}[rr.Intn(2)]
		}
		if i >= 450 && i%9 == 4 {
			// content built against the range coder's arithmetic under this case's properties:
			// runs of held-back bytes, ended with or without a carry (see gen "carry:")
			rr := prng.New(seed, label, 99, uint64(i)) // (own generator: the draws of the other cases stay as they were)
			k.Family = fmt.Sprintf("carry:%d%d%d:%d:%d:%s:256", k.LC, k.LP, k.PB, rr.Pick(0, 20, 200, 1500), rr.Pick(6, 12, 40, 150), []string{"c", "n"}[rr.Intn(2)])
			k.N = 0
		}
		out = append(out, k)
	}
	return out
}

// sinkFor returns the io.Writer handed to the library and the recording sink.
func sinkFor(byteSink bool) (io.Writer, *mon.Sink) {
	s := mon.NewSink()
	if byteSink {
		return mon.ByteSink{Sink: s}, s
	}
	return s, s
}

// runLZWriter writes the case's data completely; returns the sink and a
// deviation description (empty if every call behaved).
func runLZWriter(k lzCase, data []byte) (sink *mon.Sink, dev string, pn *mon.Panic) {
	var w io.Writer
	w, sink = sinkFor(k.ByteSink)
	finish := func() {}
	if !k.ByteSink {
		// what the writer is connected to: the recording sink, a *bufio.Writer in front of it
		// (an io.ByteWriter; flushed by the caller after Close), a *bytes.Buffer
		w, finish = sinkKind(k.Seed>>7, sink)
	}
	defer finish()
	cfg := k.config(int64(len(data)))
	pn = mon.Guard(func() {
		// configuration lifecycle (a function of the case seed): fresh literal; verified with
		// other values first and then set; Properties changed by the caller right after
		// NewWriter returned.  The writer must behave as configured at the time of NewWriter.
		var pv *lzma.Properties
		switch k.Seed % 8 {
		case 5:
			final := cfg
			cfg = lzma.WriterConfig{DictCap: 4096, Properties: &lzma.Properties{LC: 1, LP: 1, PB: 1}}
			cfg.Verify()
			if w0, err := cfg.NewWriter(io.Discard); err == nil {
				w0.Write([]byte("earlier stream"))
				w0.Close()
			}
			cfg.Properties, cfg.DictCap, cfg.Matcher = final.Properties, final.DictCap, final.Matcher
			if final.BufSize != 0 {
				cfg.BufSize = final.BufSize
			}
			cfg.SizeInHeader, cfg.Size, cfg.EOSMarker = final.SizeInHeader, final.Size, final.EOSMarker
		case 6:
			v := *cfg.Properties
			pv = &v
			cfg.Properties = pv
		}
		lw, err := cfg.NewWriter(w)
		if err != nil {
			dev = fmt.Sprintf("NewWriter: %v", err)
			return
		}
		if pv != nil {
			*pv = lzma.Properties{LC: (pv.LC + 1) % 3, LP: (pv.LP + 1) % 2, PB: (pv.PB + 2) % 5}
		}
		if k.Seed%8 == 7 && len(data) > 0 {
			// fed through io.Copy from a source without WriteTo whose last bytes come with io.EOF
			src := mon.NewSource(data)
			src.Frag = "eofwith"
			fr := prng.New(k.Seed, 3)
			src.Next = func(max int) int { return fr.Range(1, 1+fr.Pick(300, 5000, 40000)) }
			n, err := io.Copy(lw, struct{ io.Reader }{src})
			if n != int64(len(data)) || err != nil {
				dev = fmt.Sprintf("io.Copy of %d bytes into the writer returned (%d, %v)", len(data), n, err)
				return
			}
			if err := lw.Close(); err != nil {
				dev = fmt.Sprintf("Close returned %v", err)
			}
			return
		}
		pos := 0
		for i, l := range gen.Partition(prng.New(k.Seed, 2), k.Part, len(data), []int{273, 4096, k.DictCap, k.DictCap + k.BufSize, 65536}) {
			n, err := callerWrite(lw, data[pos:pos+l], k.Seed>>3+uint64(i))
			if n != l || err != nil {
				dev = fmt.Sprintf("Write #%d of %d bytes at offset %d returned (%d, %v)", i, l, pos, n, err)
				return
			}
			pos += l
		}
		if err := lw.Close(); err != nil {
			dev = fmt.Sprintf("Close returned %v", err)
		}
	})
	return
}

func readLZMA(stream []byte, dictCap int) (out []byte, err error, pn *mon.Panic) {
	pn = mon.Guard(func() {
		var r *lzma.Reader
		r, err = lzma.ReaderConfig{DictCap: dictCap}.NewReader(bytes.NewReader(stream))
		if err != nil {
			err = fmt.Errorf("open: %w", err)
			return
		}
		out, err = io.ReadAll(r)
	})
	return
}

func checkC06(c *ev.Ctx) {
	c.SetRule("classic LZMA writer cases: all 225 property codes x both matchers on short inputs, then random draws over (lc,lp,pb, DictCap, BufSize, matcher, termination mode {marker, size, size+marker}, plain or io.ByteWriter sink, data family, length, Write partition); each round-trips through lzma.Reader and has its 13-byte header compared with what the reference decoder finds encoded. Explicit-size contract: for every sized case additionally a 'short' history (fewer bytes then Close) and a 'surplus' history (more bytes, split over calls). distinct non-trivial = distinct (property code | dict class | bufsize | matcher | mode | sink kind | family | partition) with non-empty input")
	c.Assume("internal/ref's .lzma decoder defines what is encoded (number of bytes, end marker)")
	n := 1500
	if thorough(c) {
		n = 80000
	}
	cases := lzCases(c.Seed, 6, n, false)
	c.MinEvals(int64(n / 2))
	defaultCtors(c, "lzma")
	par(len(cases), func(i int) {
		k := cases[i]
		noteCase(k.ID)
		if !want(c, k.ID) {
			return
		}
		data := gen.Data(prng.New(k.Seed, 1), k.Family, k.N)
		det := k.desc()
		inputDetail(det, data)
		cfg := k.config(int64(len(data)))
		if err := cfg.Verify(); err != nil {
			c.Inconclusive(fmt.Sprintf("config of %s rejected by Verify: %v", k.ID, err))
			return
		}
		sink, dev, pn := runLZWriter(k, data)
		det["output_len"] = len(sink.Buf)
		det["output_head"] = ev.Hex(sink.Buf, 128)
		noteCarry(c, k.Family, sink.Buf)
		c.Eval(k.class(), len(data) > 0)
		switch {
		case pn != nil:
			det["what"] = "writer panicked: " + pn.Value
			det["stack"] = pn.Stack
			c.Violation("writer-panic", det)
			return
		case dev != "":
			det["what"] = dev
			c.Violation("write-or-close-error", det)
			return
		}
		out, err, rpn := readLZMA(sink.Buf, 4096)
		switch {
		case rpn != nil:
			det["what"] = "reader panicked: " + rpn.Value
			c.Violation("reader-panic", det)
			return
		case err != nil:
			det["what"] = fmt.Sprintf("lzma.Reader fails on the writer's output after %d of %d bytes: %v", len(out), len(data), err)
			c.Violation("roundtrip-error", det)
			return
		case !bytes.Equal(out, data):
			det["what"] = fmt.Sprintf("lzma.Reader returns %d bytes, input %d, first difference %d", len(out), len(data), firstDiff(out, data))
			c.Violation("roundtrip-mismatch", det)
			return
		}
		// header truthfulness (size field), judged with the reference decoder
		ro, info, rerr := ref.DecodeAlone(sink.Buf, 0)
		if rerr != nil {
			det["what"] = fmt.Sprintf("reference decoder rejects the emitted stream: %v (size field %d)", rerr, info.SizeField)
			c.Violation("header-or-stream-invalid", det)
			return
		}
		if info.SizeField >= 0 && info.SizeField != int64(len(ro)) {
			det["what"] = fmt.Sprintf("header states %d bytes, %d are encoded", info.SizeField, len(ro))
			c.Violation("header-misstates-size", det)
		}
		if k.Mode != 0 && info.SizeField != int64(len(data)) {
			det["what"] = fmt.Sprintf("explicit size %d configured, header states %d", len(data), info.SizeField)
			c.Violation("header-size-not-written", det)
		}
		if info.SizeField < 0 && !info.Marker {
			det["what"] = "header states unknown size but no end marker follows"
			c.Violation("unknown-size-without-marker", det)
		}
		c.Count("roundtrips", 1)
		// explicit-size contract
		if k.Mode != 0 && len(data) > 0 {
			c.Count("size_contract_histories", 2)
			// short: fewer bytes than announced
			short := len(data) - 1 - int(k.Seed%uint64(len(data)))
			w, s := sinkFor(k.ByteSink)
			var cerr error
			pn := mon.Guard(func() {
				lw, err := cfg.NewWriter(w)
				if err != nil {
					cerr = nil
					return
				}
				lw.Write(data[:short])
				cerr = lw.Close()
			})
			if pn != nil || cerr == nil {
				det["what"] = fmt.Sprintf("Size=%d configured, %d bytes written: Close returned %v (panic %v); %d bytes emitted", len(data), short, cerr, pn != nil, len(s.Buf))
				c.Violation("short-write-close-succeeds", det)
			}
			// surplus: more bytes than announced, split over calls
			extra := gen.Data(prng.New(k.Seed, 9), "text", 1+int(k.Seed%50))
			all := append(append([]byte{}, data...), extra...)
			w, s = sinkFor(k.ByteSink)
			var log []string
			accepted := 0
			bad := ""
			pn = mon.Guard(func() {
				lw, err := cfg.NewWriter(w)
				if err != nil {
					bad = fmt.Sprint("NewWriter: ", err)
					return
				}
				pos := 0
				parts := gen.Partition(prng.New(k.Seed, 10), "random", len(all), nil)
				for _, l := range parts {
					n, err := lw.Write(all[pos : pos+l])
					log = append(log, fmt.Sprintf("Write(%d)=(%d,%v)", l, n, err))
					wantN := l
					if accepted+l > len(data) {
						wantN = len(data) - accepted
						if wantN < 0 {
							wantN = 0
						}
					}
					if n != wantN || (wantN < l) != (err != nil) {
						bad = fmt.Sprintf("with %d of %d announced bytes accepted, Write of %d bytes returned (%d, %v); want n=%d and an error exactly when bytes are refused", accepted, len(data), l, n, err, wantN)
						return
					}
					accepted += n
					pos += l
				}
				if err := lw.Close(); err != nil {
					bad = fmt.Sprintf("Close after exactly %d accepted bytes returned %v", accepted, err)
				}
			})
			if pn != nil {
				bad = "panic: " + pn.Value
			}
			if bad == "" {
				o, e, _ := readLZMA(s.Buf, 4096)
				if e != nil || !bytes.Equal(o, data) {
					bad = fmt.Sprintf("stream after refused surplus decodes to %d bytes / %v, want the first %d bytes", len(o), e, len(data))
				}
			}
			if bad != "" {
				det["what"] = bad
				det["calls"] = log
				c.Violation("surplus-contract", det)
			}
		}
		if i%131 == 0 {
			c.Sample(map[string]any{"case": k.desc(), "output_bytes": len(sink.Buf), "header_hex": ev.Hex(sink.Buf[:13], 13), "marker": info.Marker, "size_field": info.SizeField})
		}
	})
}
