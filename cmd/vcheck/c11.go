package main

import (
	"bytes"
	"encoding/binary"
	"fmt"
	"hash/crc32"
	"io"
	"os"
	"os/exec"
	"path/filepath"
	"runtime"
	"strconv"
	"strings"
	"sync"
	"sync/atomic"
	"syscall"
	"time"

	"github.com/ulikunitz/xz"
	"github.com/ulikunitz/xz/lzma"

	"verif/internal/ev"
	"verif/internal/gen"
	"verif/internal/mon"
	"verif/internal/prng"
	"verif/internal/ref"
)

func init() { register("C11", "exploration", checkC11) }

type fseed struct {
	ID     string
	Format string // xz, lzma, lzma2
	B      []byte
	Dict   int
	Bounds []int   // offsets of structural fields worth hitting
	XS     *xzSeed // parsed container (single-stream xz seeds): basis of structural edits
}

// xzParsed returns the parsed form of a valid single-stream .xz seed, nil otherwise.
func xzParsed(id string, b []byte) *xzSeed {
	o, ss, err := ref.DecodeXZ(b, 0)
	if err != nil || len(ss) != 1 || len(ss[0].Blocks) == 0 || ss[0].PaddingAfter != 0 {
		return nil
	}
	return &xzSeed{ID: id, B: b, Content: o, S: ss[0], Check: ss[0].Check}
}

var extremeSizes = []int64{0, 1, 2, 0x7f, 0x80, 0x3fff, 0x4000, 1<<31 - 1, 1 << 31, 1<<32 - 1, 1 << 32, 1 << 40, 1 << 62, 1<<63 - 2, 1<<63 - 1}

// xzStructMutate rebuilds the container of a valid stream with hostile field values - block
// header size fields, flags, filter id, properties size, header padding, index count and
// records, backward size - serialised properly and with every CRC32 re-sealed, so the values
// reach the code behind the CRC gates (a byte-level mutation cannot produce a size field of a
// different length with a matching CRC).  The dictionary code stays <= 28 (quantifier bound).
func xzStructMutate(r *prng.R, xs *xzSeed) []byte {
	p := splitXZ(*xs)
	pickSize := func(actual int64) int64 {
		switch r.Intn(4) {
		case 0:
			return actual + int64(r.Intn(5)) - 2
		case 1:
			return int64(r.U64() >> uint(1+r.Intn(63)))
		}
		return extremeSizes[r.Intn(len(extremeSizes))]
	}
	for n := r.Range(1, 3); n > 0; n-- {
		bi := r.Intn(len(p.bh))
		bl := p.s.Blocks[bi]
		switch r.Intn(10) {
		case 0, 1, 2, 3: // block header fields
			sp := blockSpec(&p, bi)
			switch r.Intn(9) {
			case 0:
				sp.Unc = pickSize(int64(bl.UncLen))
			case 1:
				sp.Comp = pickSize(int64(bl.CompLen))
			case 2:
				sp.Unc, sp.Comp = pickSize(int64(bl.UncLen)), pickSize(int64(bl.CompLen))
			case 3:
				sp.Unc63 = r.Bool()
				sp.Comp63 = !sp.Unc63 || r.Bool()
			case 4:
				sp.FlagsOr = byte(r.Intn(64))
			case 5:
				sp.FilterID = uint64(r.Pick(0, 1, 3, 4, 0x20, 0x22, 0x4000, 1<<62, 1<<63-1))
			case 6:
				sp.PropsSize = uint64(r.Pick(0, 2, 3, 0x7f, 0x80, 1<<32, 1<<63-1))
				sp.Props = make([]byte, r.Intn(4))
			case 7:
				sp.Props = []byte{byte(r.Pick(0, 1, 27, 28, 41, 63, 64, 0x80|int(bl.DictCode), 255))}
			default:
				sp.ExtraPad = r.Intn(4)
				sp.PadByte = byte(r.Pick(0, 0, 1, 0xff))
			}
			if len(sp.Props) == 1 && sp.Props[0] > 28 && sp.Props[0] <= 40 {
				sp.Props[0] = 28
			}
			nb := sp.Bytes()
			if len(nb) > 1024 {
				continue
			}
			p.bh[bi] = nb
			if r.Chance(2, 3) && bi < len(p.recs) {
				p.recs[bi][0] += int64(len(nb) - bl.HeaderSize)
				p.resealIndexFooter()
			}
		case 4, 5: // index records
			if bi >= len(p.recs) {
				continue
			}
			if r.Bool() {
				p.recs[bi][0] = pickSize(p.recs[bi][0])
			} else {
				p.recs[bi][1] = pickSize(p.recs[bi][1])
			}
			p.resealIndexFooter()
		case 6: // index count
			cnt := pickSize(int64(len(p.recs)))
			p.idx = ref.IndexBytes(p.recs, cnt, byte(r.Pick(0, 0, 0, 1)))
			p.foot = ref.StreamFooter(int64(len(p.idx)), 0, p.check)
		case 7: // records added / removed
			if r.Bool() && len(p.recs) > 1 {
				p.recs = p.recs[:len(p.recs)-1]
			} else {
				p.recs = append(p.recs, [2]int64{pickSize(20), pickSize(20)})
			}
			p.resealIndexFooter()
		case 8: // footer
			p.foot = ref.StreamFooter(pickSize(int64(len(p.idx)))&^3, byte(r.Pick(0, 0, 1)), byte(r.Pick(int(p.check), int(p.check), 0, 1, 4, 10, 15)))
		default: // stream header flags
			p.hdr = ref.StreamHeader(byte(r.Pick(0, 0, 1, 0x80)), byte(r.Pick(int(p.check), 0, 1, 4, 10, 2, 15, 0x11)))
		}
	}
	return p.assemble()
}

func c11Seeds(c *ev.Ctx) []fseed {
	var out []fseed
	for _, s := range truncStreams(c) {
		f := s.Format
		if f == "xz-single" {
			continue
		}
		if f == "xz-multi" {
			f = "xz"
		}
		fs := fseed{ID: s.ID, Format: f, B: s.B, Dict: s.Dict}
		switch f {
		case "xz":
			fs.Bounds = xzBounds(s.B)
			fs.XS = xzParsed(s.ID, s.B)
		case "lzma2":
			if ch, _, err := ref.WalkLZMA2(s.B); err == nil {
				for _, x := range ch {
					fs.Bounds = append(fs.Bounds, x.Offset)
				}
			}
		case "lzma":
			fs.Bounds = []int{0, 1, 5, 13}
		}
		out = append(out, fs)
	}
	// larger seeds whose matches reach far beyond a 4 KiB window: after a mutation of the
	// declared / configured dictionary size the distances exceed the decoder's buffer
	r := prng.New(c.Seed, 110)
	for i := 0; i < 6; i++ {
		data := gen.Data(r, []string{"xgapx", "nearrep", "xx"}[i%3], r.Range(12000, 40000))
		k := lzCase{LC: 3, LP: 0, PB: 2, DictCap: 65536, BufSize: 4096, Matcher: i % 2, Mode: i % 3, Part: "one"}
		if sk, dev, pn := runLZWriter(k, data); dev == "" && pn == nil {
			out = append(out, fseed{ID: fmt.Sprintf("farlzma%d", i), Format: "lzma", B: sk.Buf, Dict: 4096, Bounds: []int{0, 1, 2, 3, 5, 13}})
		}
		var buf bytes.Buffer
		if w, err := (lzma.Writer2Config{DictCap: 65536, Matcher: lzma.MatchAlgorithm(i % 2)}).NewWriter2(&buf); err == nil {
			w.Write(data)
			w.Close()
			fs := fseed{ID: fmt.Sprintf("farlzma2-%d", i), Format: "lzma2", B: buf.Bytes(), Dict: 4096}
			if ch, _, err := ref.WalkLZMA2(fs.B); err == nil {
				for _, x := range ch {
					fs.Bounds = append(fs.Bounds, x.Offset)
				}
			}
			out = append(out, fs)
		}
		xb := libWriteXZ(xz.WriterConfig{DictCap: 65536, BlockSize: int64(r.Pick(0, 9000))}, data)
		out = append(out, fseed{ID: fmt.Sprintf("farxz%d", i), Format: "xz", B: xb, Dict: 4096, Bounds: xzBounds(xb), XS: xzParsed(fmt.Sprintf("farxz%d", i), xb)})
	}
	// an end marker inside an LZMA2 chunk, exactly at the chunk's announced size (the body of a
	// .lzma stream with size and marker, put into a chunk), followed by a chunk that continues
	// the state and begins with literals: the repeat distance left behind by the marker is
	// 2^32-1
	for i := 0; i < 3; i++ {
		d := gen.Data(r, []string{"text", "lowent", "random"}[i], r.Range(20, 900))
		var lb bytes.Buffer
		lw, err := lzma.WriterConfig{Properties: &lzma.Properties{LC: 3, LP: 0, PB: 2}, DictCap: 4096, SizeInHeader: true, Size: int64(len(d)), EOSMarker: true}.NewWriter(&lb)
		if err != nil {
			continue
		}
		lw.Write(d)
		if lw.Close() != nil || lb.Len() < 20 {
			continue
		}
		body := lb.Bytes()[13:]
		u, cs := len(d)-1, len(body)-1
		st := []byte{0xE0 | byte(u>>16), byte(u >> 8), byte(u), byte(cs >> 8), byte(cs), 0x5d}
		st = append(st, body...)
		st = append(st, 0x80, 0, byte(i), 0, 5, 0, 0, 0, 0, 0, 0)
		st = append(st, 0)
		fs := fseed{ID: fmt.Sprintf("marker-in-chunk%d", i), Format: "lzma2", B: st, Dict: 4096, Bounds: []int{0, 5, 6, len(st) - 13, len(st) - 12, len(st) - 8}}
		out = append(out, fs)
		xb := ref.BuildXZ(ref.CheckCRC32, []ref.BlockSpec{{LZMA2: st, Content: append(append([]byte{}, d...), make([]byte, i+1)...), DictCode: 0}})
		out = append(out, fseed{ID: fmt.Sprintf("marker-in-chunk-xz%d", i), Format: "xz", B: xb, Dict: 4096, Bounds: xzBounds(xb)})
	}
	return out
}

var interesting = []byte{0, 1, 2, 3, 0x7f, 0x80, 0x81, 0xc0, 0xe0, 0xfe, 0xff, 0x20, 0x21, 0x40}

// mutate derives a hostile input from a valid seed.
func mutate(r *prng.R, s fseed, seeds []fseed) []byte {
	b := append([]byte(nil), s.B...)
	nops := r.Range(1, 4)
	if s.XS != nil && r.Chance(1, 3) {
		b = xzStructMutate(r, s.XS)
		nops = r.Range(0, 2)
	}
	near := func() int {
		if len(b) == 0 {
			return 0
		}
		if len(s.Bounds) > 0 && r.Chance(2, 3) {
			o := s.Bounds[r.Intn(len(s.Bounds))] + r.Intn(8) - 1
			if o >= 0 && o < len(b) {
				return o
			}
		}
		return r.Intn(len(b))
	}
	for op := 0; op < nops; op++ {
		if len(b) == 0 {
			b = append(b, byte(r.U64()))
		}
		switch r.Intn(14) {
		case 0:
			b[near()] ^= 1 << uint(r.Intn(8))
		case 1:
			b[near()] = interesting[r.Intn(len(interesting))]
		case 2:
			o := near()
			for k := 0; k < r.Range(1, 6) && o+k < len(b); k++ {
				b[o+k] = byte(r.U64())
			}
		case 3: // insert
			o := near()
			ins := make([]byte, r.Range(1, 9))
			r.Bytes(ins)
			b = append(b[:o], append(ins, b[o:]...)...)
		case 4: // delete
			o := near()
			l := r.Range(1, 16)
			if o+l > len(b) {
				l = len(b) - o
			}
			b = append(b[:o], b[o+l:]...)
		case 5: // duplicate a range
			o := near()
			l := r.Range(1, 64)
			if o+l > len(b) {
				l = len(b) - o
			}
			d := append([]byte(nil), b[o:o+l]...)
			b = append(b[:o], append(d, b[o:]...)...)
		case 6: // splice with another seed
			t := seeds[r.Intn(len(seeds))]
			if len(t.B) > 0 {
				o, p := near(), r.Intn(len(t.B))
				b = append(append([]byte(nil), b[:o]...), t.B[p:]...)
			}
		case 7: // truncate and add garbage
			o := near()
			g := make([]byte, r.Range(0, 40))
			r.Bytes(g)
			b = append(b[:o], g...)
		case 8: // fill a region
			o := near()
			v := byte(r.Pick(0, 0xff))
			for k := 0; k < r.Range(1, 32) && o+k < len(b); k++ {
				b[o+k] = v
			}
		case 9: // size-like fields: varints / big endian sizes with extreme values
			o := near()
			v := []uint64{0, 1, 0x7f, 0x80, 0xffff, 1 << 21, 1<<32 - 1, 1 << 32, 1<<63 - 1, 1 << 63, 1<<64 - 1}[r.Intn(11)]
			var tmp [10]byte
			n := binary.PutUvarint(tmp[:], v)
			for k := 0; k < n && o+k < len(b); k++ {
				b[o+k] = tmp[k]
			}
		case 10: // random bytes after a valid prefix
			o := near()
			g := make([]byte, r.Range(1, 200))
			r.Bytes(g)
			b = append(b[:o], g...)
		case 11: // chunk header rewrite at a chunk boundary
			if s.Format != "lzma" && len(s.Bounds) > 0 {
				o := s.Bounds[r.Intn(len(s.Bounds))]
				if o < len(b) {
					b[o] = byte(r.Pick(0, 1, 2, 3, 0x7f, 0x80, 0x9f, 0xa0, 0xc0, 0xe0, 0xff, r.Intn(256)))
					if o+4 < len(b) && r.Bool() {
						b[o+1+r.Intn(4)] = byte(r.U64())
					}
				}
			}
		case 12: // .lzma header fields
			if s.Format == "lzma" && len(b) >= 13 {
				switch r.Intn(3) {
				case 0:
					b[0] = byte(r.Intn(256))
				case 1:
					v := []uint64{0, 1, 5, 100, 1 << 40, 1<<63 - 1, 1<<64 - 1}[r.Intn(7)]
					binary.LittleEndian.PutUint64(b[5:], v)
				default:
					// dictionary size field: arbitrary, or one of the values around the limits a
					// reader has to cope with (0, tiny, below and at the minimum, not a power of two)
					if r.Bool() {
						binary.LittleEndian.PutUint32(b[1:], uint32(r.Pick(0, 1, 2, 64, 255, 256, 272, 273, 274, 1024, 4095, 4096, 4097, 6144, 65535)))
					} else {
						binary.LittleEndian.PutUint32(b[1:], uint32(r.U64()))
					}
				}
			}
		default: // container edit with re-sealed CRC32s (xz)
			if s.Format == "xz" {
				b = resealXZ(r, b)
			}
		}
	}
	if s.Format == "xz" && r.Chance(1, 3) {
		b = resealXZ(r, b)
	}
	if s.Format == "lzma" && len(b) >= 5 {
		// quantifier bound: declared dictionary <= 64 MiB (mostly far smaller, the reader allocates it)
		d := binary.LittleEndian.Uint32(b[1:])
		lim := uint32(1 << 16)
		if r.Chance(1, 200) {
			lim = 64 << 20
		}
		if d > lim {
			binary.LittleEndian.PutUint32(b[1:], d%lim)
		}
	}
	return b
}

// resealXZ recomputes the CRC32 of the stream header and of the first block
// header in place (after possibly editing a field), so mutations get past the
// CRC gates.  The dictionary byte is kept <= code 28 (the reader allocates it).
func resealXZ(r *prng.R, b []byte) []byte {
	if len(b) >= 12 {
		binary.LittleEndian.PutUint32(b[8:], crc32.ChecksumIEEE(b[6:8]))
	}
	if len(b) > 12 && b[12] != 0 {
		hs := (int(b[12]) + 1) * 4
		if 12+hs <= len(b) {
			h := b[12 : 12+hs]
			if r.Chance(1, 2) {
				h[1+r.Intn(hs-5)] = interesting[r.Intn(len(interesting))]
			}
			// clamp a plausible dictionary byte
			for i := 2; i+2 < hs-4; i++ {
				if h[i] == 0x21 && h[i+1] == 1 && h[i+2] > 28 && h[i+2] <= 40 {
					h[i+2] = 28
				}
			}
			binary.LittleEndian.PutUint32(h[hs-4:], crc32.ChecksumIEEE(h[:hs-4]))
		}
	}
	if len(b) >= 12+12 && r.Chance(1, 3) {
		f := b[len(b)-12:]
		binary.LittleEndian.PutUint32(f, crc32.ChecksumIEEE(f[4:10]))
	}
	return b
}

type cpuWatch struct {
	tid   int32
	start int64 // cpu ticks at the start of the current input
	input atomic.Pointer[[]byte]
	label atomic.Pointer[string]
	busy  int32
}

func threadTicks(tid int32) int64 {
	b, err := os.ReadFile(fmt.Sprintf("/proc/self/task/%d/stat", tid))
	if err != nil {
		return -1
	}
	s := string(b)
	i := strings.LastIndexByte(s, ')')
	f := strings.Fields(s[i+1:])
	if len(f) < 13 {
		return -1
	}
	u, _ := strconv.ParseInt(f[11], 10, 64)
	k, _ := strconv.ParseInt(f[12], 10, 64)
	return u + k
}

func checkC11(c *ev.Ctx) {
	c.SetRule("inputs derived from valid seeds of the three formats (library-, xz-utils- and generator-written) by 1..4 stacked structure-aware mutations (bit/byte/burst changes near structural fields, insert/delete/duplicate/splice, truncation+garbage, extreme values in size fields, chunk-header rewrites, CRC32-resealed container edits, random bytes after a valid prefix), plus pure random strings; each is opened and read (to the first error, end of stream or 1 MiB of output, followed by three further Read calls) by the reader of its format and, for a share, by the other readers. Monitors: panic (recover), 0<=n<=len(p), logical stall (1000 source calls after exhaustion / 1000 consecutive (0,nil)), CPU-time stall (thread CPU time of one input > 60 s). distinct non-trivial = distinct (reader kind | seed | outcome class) tuples")
	c.Assume("declared dictionary sizes are bounded as the quantifier states (<= 64 MiB; .lzma header clamped after mutation, xz dictionary byte only changed by the resealing mutator and kept <= code 28)", "the CPU-time stall bound (60 s thread CPU time for an input that produces at most 1 MiB) is the one place where a time measurement contributes to a verdict")
	seeds := c11Seeds(c)
	n := 1000000
	if thorough(c) {
		n = 12000000
	}
	c.MinEvals(int64(n / 2))
	c.Set("seeds", len(seeds))
	var next int64 = -1
	nw := workers()
	watches := make([]*cpuWatch, nw)
	var wg sync.WaitGroup
	done := make(chan struct{})
	hz := int64(100)
	// CPU-time watchdog (see Assume)
	go func() {
		for {
			select {
			case <-done:
				return
			case <-time.After(2 * time.Second):
			}
			for _, w := range watches {
				if w == nil || atomic.LoadInt32(&w.busy) == 0 {
					continue
				}
				t := threadTicks(w.tid)
				st := atomic.LoadInt64(&w.start)
				if t >= 0 && st >= 0 && (t-st)/hz > 60 {
					in := w.input.Load()
					lb := w.label.Load()
					p := filepath.Join(c.WorkDir, "replay", "C11-stall-input.bin")
					os.MkdirAll(filepath.Dir(p), 0o755)
					if in != nil {
						os.WriteFile(p, *in, 0o644)
					}
					c.Violation("cpu-stall", map[string]any{"case_id": *lb, "what": fmt.Sprintf("a Read call chain on input %s consumed more than 60 s of thread CPU time without returning (input saved to %s)", *lb, p), "input_hex": ev.Hex(*in, 4096)})
					os.Exit(c.Finish())
				}
			}
		}
	}()
	outcomes := sync.Map{}
	for wi := 0; wi < nw; wi++ {
		wg.Add(1)
		w := &cpuWatch{}
		watches[wi] = w
		go func() {
			defer wg.Done()
			runtime.LockOSThread()
			w.tid = int32(syscall.Gettid())
			for {
				i := int(atomic.AddInt64(&next, 1))
				if i >= n {
					return
				}
				id := fmt.Sprintf("f%d", i)
				noteCase(id)
				if !want(c, id) {
					continue
				}
				r := prng.New(c.Seed, 11, uint64(i))
				var s fseed
				var in []byte
				if i%50 == 49 {
					in = make([]byte, r.Range(0, 300))
					r.Bytes(in)
					s = fseed{ID: "random", Format: []string{"xz", "lzma", "lzma2"}[r.Intn(3)], Dict: 4096}
					if s.Format == "lzma" && len(in) >= 5 {
						in[3], in[4] = 0, 0
					}
				} else if i < len(seeds) {
					// every seed once as it is
					s = seeds[i]
					in = s.B
				} else {
					s = seeds[r.Intn(len(seeds))]
					in = mutate(r, s, seeds)
				}
				kinds := []string{s.Format}
				if s.Format == "xz" {
					kinds = append(kinds, "xz-single")
				}
				if i%20 == 0 {
					kinds = []string{"xz", "xz-single", "lzma", "lzma2"}
				}
				for _, kind := range kinds {
					if kind == "lzma" && len(in) >= 5 && binary.LittleEndian.Uint32(in[1:]) > 64<<20 {
						continue
					}
					label := id + ":" + kind
					w.input.Store(&in)
					w.label.Store(&label)
					atomic.StoreInt64(&w.start, threadTicks(w.tid))
					atomic.StoreInt32(&w.busy, 1)
					oc, viol, what := feedReader(kind, in, s.Dict)
					atomic.StoreInt32(&w.busy, 0)
					c.Eval(kind+"|"+s.ID+"|"+oc, true)
					if v, ok := outcomes.Load(kind + "|" + oc); ok {
						atomic.AddInt64(v.(*int64), 1)
					} else {
						var z int64 = 1
						if v, loaded := outcomes.LoadOrStore(kind+"|"+oc, &z); loaded {
							atomic.AddInt64(v.(*int64), 1)
						}
					}
					if viol != "" {
						c.Violation(viol, map[string]any{"case_id": id, "reader": kind, "seed_stream": s.ID, "what": what, "input_len": len(in), "input_hex": ev.Hex(in, 8192)})
					}
					if i%25013 == 0 {
						c.Sample(map[string]any{"reader": kind, "seed_stream": s.ID, "input_len": len(in), "input_head": ev.Hex(in, 64), "outcome": oc})
					}
				}
			}
		}()
	}
	wg.Wait()
	close(done)
	c11Big(c)
	if thorough(c) && c.ReplayOf == "" {
		nativeFuzz(c)
	}
	hist := map[string]int64{}
	outcomes.Range(func(k, v any) bool { hist[k.(string)] = atomic.LoadInt64(v.(*int64)); return true })
	c.Set("outcome_histogram", hist)
}

// feedReader opens and reads in with the named reader and classifies the outcome.
func feedReader(kind string, in []byte, dict int) (outcome, violation, what string) {
	src := mon.NewSource(in)
	if len(in)%3 == 1 {
		src.Frag = "short"
		k := 0
		src.Next = func(max int) int { k++; return 1 + (k*7)%13 }
	}
	if len(in)%7 == 3 {
		// a source that now and then returns (0, nil) for a non-empty buffer - legal for an
		// io.Reader (an io.Pipe whose writer does an empty Write behaves so); finitely often
		// here, so a reader that retries still terminates
		src.ZeroNil = func(call int) bool { return call < 4000 && (call*2654435761>>7)%5 == 0 }
	}
	if dict < 4096 {
		dict = 4096
	}
	var lr io.Reader
	var cerr, rerr error
	total := 0
	stall := ""
	if len(in) == 0 {
		in = []byte{}
	}
	pn := mon.Guard(func() {
		// one input in a hundred goes through the convenience constructors (zero-value
		// configuration: the defaults decide)
		defaults := len(in) > 0 && (len(in)*31+int(in[len(in)/2]))%100 == 0
		switch {
		case defaults && kind == "xz":
			lr, cerr = xz.NewReader(src)
		case defaults && kind == "lzma":
			lr, cerr = lzma.NewReader(src)
		case defaults && kind == "lzma2":
			lr, cerr = lzma.NewReader2(src)
		}
		if defaults && kind != "xz-single" {
			kind = "done"
		}
		switch kind {
		case "xz":
			lr, cerr = xz.ReaderConfig{DictCap: 4096}.NewReader(src)
		case "xz-single":
			lr, cerr = xz.ReaderConfig{DictCap: 4096, SingleStream: true}.NewReader(src)
		case "lzma":
			lr, cerr = lzma.ReaderConfig{DictCap: 4096}.NewReader(src)
		case "lzma2":
			lr, cerr = lzma.Reader2Config{DictCap: dict}.NewReader2(src)
		}
		if cerr != nil {
			return
		}
		buf := make([]byte, 1+len(in)%8191)
		zero := 0
		for total < 1<<20 {
			n, err := lr.Read(buf)
			if n < 0 || n > len(buf) {
				stall = fmt.Sprintf("Read returned n=%d for a buffer of %d bytes", n, len(buf))
				return
			}
			total += n
			if err != nil {
				rerr = err
				// a caller may read again after an error or the end of the stream: three
				// further calls must return (no panic) with n within the buffer
				post := make([]byte, 4)
				for k := 0; k < 3; k++ {
					n2, _ := lr.Read(post[:1+k])
					if n2 < 0 || n2 > 1+k {
						stall = fmt.Sprintf("Read after the terminal result returned n=%d for a buffer of %d bytes", n2, 1+k)
						return
					}
				}
				return
			}
			if n == 0 {
				zero++
				if zero > 1000 {
					stall = "1000 consecutive (0, nil) results: no progress"
					return
				}
			} else {
				zero = 0
			}
			if src.CallsAfterEnd > 1000 {
				stall = "more than 1000 source calls after the source was exhausted within the read loop"
				return
			}
		}
	})
	switch {
	case pn != nil:
		return "panic", "panic:" + kind + ":" + panicClass(pn.Value), fmt.Sprintf("%s reader panicked: %s\n%s", kind, pn.Value, clipStr(pn.Stack, 1500))
	case stall != "":
		return "stall", "stall:" + kind, stall
	case cerr != nil:
		return "ctor:" + errBucket(cerr), "", ""
	case rerr == io.EOF:
		if total > 0 {
			return "eof-with-data", "", ""
		}
		return "eof-empty", "", ""
	case rerr != nil:
		if total > 0 {
			return "data-then:" + errBucket(rerr), "", ""
		}
		return "read:" + errBucket(rerr), "", ""
	}
	return "limit-1MiB", "", ""
}

// c11Big feeds a fixed list of inputs whose hostility is their amount: tens of MiB of
// stream padding, hundreds of thousands of empty streams, one-byte blocks and one-byte
// chunks. What a reader does once per padding word, stream, block or chunk (a recursion, an
// append, a counter) only shows at such counts. A stack overflow ends the process; the
// check script turns that into the violation.
func c11Big(c *ev.Ctx) {
	small := libWriteXZ(xz.WriterConfig{}, []byte("a small valid stream\n"))
	// (4 KiB dictionary: the reader allocates and clears the declared dictionary once per
	// block, so that the default 8 MiB make a chain of empty streams cost 3 ms per 32 bytes)
	empty := libWriteXZ(xz.WriterConfig{DictCap: 4096}, nil)
	zeros := func(n int) []byte { return make([]byte, n) }
	cat := func(parts ...[]byte) []byte {
		var b []byte
		for _, p := range parts {
			b = append(b, p...)
		}
		return b
	}
	type big struct {
		id    string
		kinds []string
		mk    func() []byte
	}
	nb := 200000
	list := []big{
		{"pad48M", []string{"xz", "xz-single"}, func() []byte { return cat(small, zeros(48<<20)) }},
		{"pad40M-stream", []string{"xz"}, func() []byte { return cat(small, zeros(40<<20), small) }},
		{"pad40M-garbage", []string{"xz"}, func() []byte { return cat(small, zeros(40<<20), []byte{1, 0, 0, 0}) }},
		{"zeros48M", []string{"xz", "lzma2"}, func() []byte { return zeros(48 << 20) }},
		{"empty-streams", []string{"xz"}, func() []byte { return bytes.Repeat(empty, 400000) }},
		{"one-byte-blocks", []string{"xz", "xz-single"}, func() []byte {
			return libWriteXZ(xz.WriterConfig{BlockSize: 1, DictCap: 4096, CheckSum: xz.None}, bytes.Repeat([]byte{'b'}, nb))
		}},
		{"one-byte-chunks", []string{"lzma2"}, func() []byte {
			b := []byte{1, 0, 0, 'c'}
			for i := 1; i < 300000; i++ {
				b = append(b, 2, 0, 0, 'c')
			}
			return append(b, 0)
		}},
	}
	par(len(list), func(i int) {
		k := list[i]
		id := "big-" + k.id
		noteCase(id)
		if !want(c, id) {
			return
		}
		in := k.mk()
		for _, kind := range k.kinds {
			oc, viol, what := feedReader(kind, in, 4096)
			c.Eval(kind+"|"+id+"|"+oc, true)
			c.Count("large_inputs", 1)
			if viol != "" {
				c.Violation(viol, map[string]any{"case_id": id, "reader": kind, "what": what, "input_len": len(in), "input_head": ev.Hex(in, 256)})
			}
			c.Sample(map[string]any{"reader": kind, "large_input": k.id, "input_len": len(in), "outcome": oc})
		}
	})
}

func panicClass(s string) string {
	s = firstLine(s)
	// drop numbers so that one defect has one signature
	var o []byte
	for i := 0; i < len(s) && len(o) < 60; i++ {
		if s[i] >= '0' && s[i] <= '9' {
			continue
		}
		o = append(o, s[i])
	}
	return string(o)
}

func errBucket(err error) string {
	s := err.Error()
	var o []byte
	for i := 0; i < len(s) && len(o) < 48; i++ {
		if s[i] >= '0' && s[i] <= '9' {
			continue
		}
		o = append(o, s[i])
	}
	return string(bytes.TrimSpace(o))
}

// nativeFuzz runs the three Go native fuzz targets for a fixed number of
// executions each (count-bounded, not time-bounded).
func nativeFuzz(c *ev.Ctx) {
	modf := os.Getenv("VERIF_MODFILE")
	if modf == "" {
		c.Set("native_fuzzing", "skipped: VERIF_MODFILE not set")
		return
	}
	execs := "1500000x"
	if v := os.Getenv("VERIF_FUZZ_EXECS"); v != "" {
		execs = v
	}
	done := map[string]string{}
	for _, target := range []string{"FuzzXZ", "FuzzLZMA", "FuzzLZMA2"} {
		cmd := exec.Command("go", "test", "-modfile="+modf, "-run=^$", "-fuzz=^"+target+"$", "-fuzztime="+execs, "./fuzz")
		cmd.Dir = c.Dir
		cmd.Env = append(os.Environ(), "GOFLAGS=-mod=mod", "GOPROXY=off", "GOSUMDB=off", "GOTOOLCHAIN=local")
		out, err := cmd.CombinedOutput()
		tailOut := clipStr(string(out[max(0, len(out)-1500):]), 1500)
		if err != nil {
			// a failing input is written below fuzz/testdata/fuzz/<target>/
			files, _ := filepath.Glob(filepath.Join(c.Dir, "fuzz", "testdata", "fuzz", target, "*"))
			what := fmt.Sprintf("native fuzz target %s failed: %v\n%s", target, err, tailOut)
			det := map[string]any{"case_id": "native:" + target, "what": what, "failing_inputs": files}
			if strings.Contains(string(out), "panic") || strings.Contains(string(out), "Failing input") {
				c.Violation("native-fuzz-failure:"+target, det)
			} else {
				c.Inconclusive("native fuzzing of " + target + " could not run: " + clipStr(tailOut, 300))
			}
			done[target] = "failed"
			continue
		}
		done[target] = execs
		c.EvalN(1, "native:"+target, true)
	}
	c.Set("native_fuzzing_executions_per_target", done)
}
