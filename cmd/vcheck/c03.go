package main

import (
	"bytes"
	"crypto/sha256"
	"encoding/hex"
	"encoding/json"
	"fmt"
	"os"
	"path/filepath"
	"sort"
	"strings"
	"sync"
	"sync/atomic"

	"github.com/ulikunitz/xz"

	"verif/internal/ev"
	"verif/internal/gen"
	"verif/internal/lzc"
	"verif/internal/prng"
	"verif/internal/ref"
)

func init() { register("C03", "exploration", checkC03) }

type corpusEntry struct {
	Args   []string `json:"args"`
	SHA256 string   `json:"sha256"`
	Len    int      `json:"len"`
}

func loadCorpus(c *ev.Ctx, sub string) (names []string, man map[string]corpusEntry) {
	man = map[string]corpusEntry{}
	b, err := os.ReadFile(filepath.Join(c.Dir, "corpus", "manifest.json"))
	if err != nil {
		return nil, man
	}
	json.Unmarshal(b, &man)
	for k := range man {
		if strings.HasPrefix(k, sub+"/") {
			names = append(names, k)
		}
	}
	sort.Strings(names)
	return
}

// validStream is a stream admitted to the quantifier of C03: the strict
// reference (and liblzma when linked) accept it with the stated content.
type validStream struct {
	ID      string
	Src     string // "corpus", "liblzma", "refenc"
	Bytes   []byte
	Content []byte
	Decl    int64 // largest declared dictionary size
	Feat    string
}

// genXZContainer wraps generated LZMA2 chunk sequences into a .xz file.
func genXZContainer(r *prng.R, big bool) (stream, content []byte, feat string) {
	nstreams := 1
	if r.Chance(1, 6) {
		nstreams = r.Range(2, 3)
	}
	var feats []string
	for si := 0; si < nstreams; si++ {
		check := byte(r.Pick(ref.CheckNone, ref.CheckCRC32, ref.CheckCRC64, ref.CheckSHA256))
		nblocks := r.Pick(1, 1, 1, 2, 3, 0)
		var blocks []ref.BlockSpec
		for bi := 0; bi < nblocks; bi++ {
			code := byte(r.Pick(0, 0, 1, 2, 8, 12))
			ds, _ := ref.DictSizeForCode(code)
			plan := ref.LZMA2Plan{DictSize: ds, NChunks: r.Pick(0, 1, 1, 2, 3, 5, 8), OpsPer: r.Pick(3, 30, 300, 2000, 6000)}
			if big && r.Chance(1, 8) {
				plan.BigChunk = true
			}
			l2, cont, info := ref.GenLZMA2(r, plan)
			b := ref.BlockSpec{LZMA2: l2, Content: cont, DictCode: code, WithComp: r.Chance(1, 3), WithUnc: r.Chance(1, 3)}
			if r.Chance(1, 10) {
				b.HeaderPads = 1
				feats = append(feats, "hdrpad")
			}
			if b.WithComp || b.WithUnc {
				feats = append(feats, "sizefields")
			}
			if len(cont) == 0 {
				feats = append(feats, "emptyblock")
			}
			feats = append(feats, "chunks:"+strings.Join(info.Chunks, ","))
			blocks = append(blocks, b)
			content = append(content, cont...)
		}
		if nblocks == 0 {
			feats = append(feats, "emptystream")
		}
		feats = append(feats, fmt.Sprintf("check%d", check))
		stream = append(stream, ref.BuildXZ(check, blocks)...)
		if si < nstreams-1 || r.Chance(1, 5) {
			stream = append(stream, make([]byte, 4*r.Range(0, 3))...)
		}
	}
	if nstreams > 1 {
		feats = append(feats, "multistream")
	}
	return stream, content, strings.Join(feats, ";")
}

func lzcRandOpts(r *prng.R, kind int) lzc.EncOpts {
	o := lzc.EncOpts{Kind: kind, Preset: r.Intn(7), Check: r.Pick(0, 1, 4, 10)}
	if r.Chance(2, 3) {
		o.Custom = true
		o.Dict = uint32(r.Pick(4096, 4096, 8192, 65536, 1<<20, 12288))
		o.LC = r.Intn(5)
		o.LP = r.Intn(5 - o.LC)
		o.PB = r.Intn(5)
		o.ModeNormal = r.Bool()
		o.Nice = r.Range(2, 273)
		o.MF = r.Intn(5)
		if o.MF == 2 && o.Nice < 2 {
			o.Nice = 2
		}
		if o.MF >= 3 && o.Nice < 3 {
			o.Nice = 3
		}
		if o.MF == 1 || o.MF == 4 {
			if o.Nice < 4 {
				o.Nice = 4
			}
		}
		if o.MF == 0 && o.Nice < 3 {
			o.Nice = 3
		}
	}
	return o
}

func checkC03(c *ev.Ctx) {
	c.SetRule("valid streams from three sources - frozen xz-utils 5.8.2 corpus, fresh liblzma encodings (random options, SYNC/FULL flush points, MT encoder), specification-driven generator (random legal operation sequences, chunk plans, container plans) - each admitted only when the strict reference (and liblzma) accept it with the known content; every stream is read with xz.Reader under ReaderConfig.DictCap in {4096, declared-1, declared, declared+1, 1 MiB, default(sampled)}. distinct non-trivial = distinct (source | feature string incl. chunk kind sequence and check | DictCap class) with non-empty content")
	c.Assume("a stream is 'valid' when internal/ref accepts it and liblzma (when linked) agrees; disagreement between the references is counted as generator_rejected and never charged to the library")
	nfresh, ngen := 600, 6000
	if thorough(c) {
		nfresh, ngen = 10000, 100000
	}
	var admitted int64
	var featMu sync.Mutex
	featCount := map[string]int{}
	judge := func(s validStream, i int) {
		atomic.AddInt64(&admitted, 1)
		featMu.Lock()
		for _, f := range strings.Split(s.Feat, ";") {
			if strings.HasPrefix(f, "chunks:") {
				for _, k := range strings.Split(f[7:], ",") {
					featCount["chunk_"+k]++
				}
			} else if s.Src == "refenc" {
				featCount[f]++
			}
		}
		featMu.Unlock()
		noteCase(s.ID)
		if !want(c, s.ID) {
			return
		}
		caps := []int{4096, 1 << 20}
		if s.Decl > 4096 {
			caps = append(caps, int(s.Decl-1))
		}
		if s.Decl > 0 && s.Decl < 1<<28 {
			caps = append(caps, int(s.Decl), int(s.Decl+1))
		}
		if i%25 == 0 {
			caps = append(caps, 0)
		}
		for _, dc := range caps {
			out, err := libXZ(s.Bytes, xz.ReaderConfig{DictCap: dc})
			cls := fmt.Sprintf("%s|%s|dc%s", s.Src, featClass(s.Feat), sizeClass(dc))
			c.Eval(cls, len(s.Content) > 0)
			if err != nil || !bytes.Equal(out, s.Content) {
				what := fmt.Sprintf("valid stream %s (%s) read with ReaderConfig.DictCap=%d: error %v after %d of %d bytes", s.ID, s.Feat, dc, err, len(out), len(s.Content))
				if err == nil {
					what = fmt.Sprintf("valid stream %s (%s) read with ReaderConfig.DictCap=%d: %d bytes decoded, content differs from the reference at offset %d (reference %d bytes)", s.ID, s.Feat, dc, len(out), firstDiff(out, s.Content), len(s.Content))
				}
				sig := "valid-stream-rejected:" + s.Src
				if err == nil {
					sig = "valid-stream-wrong-bytes:" + s.Src
				}
				c.Violation(sig, map[string]any{"case_id": s.ID, "what": what, "stream_hex": ev.Hex(s.Bytes, 2048), "stream_len": len(s.Bytes), "declared_dict": s.Decl, "reader_dictcap": dc, "features": s.Feat})
				break
			}
		}
		c.Count("streams_from_"+s.Src, 1)
		if i%211 == 0 {
			c.Sample(map[string]any{"id": s.ID, "source": s.Src, "stream_bytes": len(s.Bytes), "content_bytes": len(s.Content), "declared_dict": s.Decl, "features": clipStr(s.Feat, 300), "reader_dictcaps": caps})
		}
	}
	var streams []validStream
	// (i) corpus
	names, man := loadCorpus(c, "xz")
	for _, n := range names {
		b, err := os.ReadFile(filepath.Join(c.Dir, "corpus", n))
		if err != nil {
			c.Inconclusive("corpus file missing: " + n)
			continue
		}
		out, ss, err := ref.DecodeXZ(b, 0)
		h := sha256.Sum256(out)
		if err != nil || hex.EncodeToString(h[:]) != man[n].SHA256 {
			c.Inconclusive(fmt.Sprintf("reference cannot reproduce corpus file %s: %v", n, err))
			c.Count("generator_rejected", 1)
			continue
		}
		var decl int64
		for _, s := range ss {
			for _, bl := range s.Blocks {
				if bl.DictSize > decl {
					decl = bl.DictSize
				}
			}
		}
		streams = append(streams, validStream{ID: "corpus:" + n, Src: "corpus", Bytes: b, Content: out, Decl: decl, Feat: strings.Join(man[n].Args, " ")})
	}
	// (i') containers around chunks at the format's size limit (exactly 65536 compressed bytes
	// and a little less): no encoder at hand produces them, the specification allows them
	for i, target := range []int{65536, 65535, 65534, 65281} {
		for try := 0; try < 40; try++ {
			l2, content, ok := ref.GenFullChunk(prng.New(c.Seed, 33, uint64(i), uint64(try)), target, 4096)
			if !ok {
				continue
			}
			check := []byte{ref.CheckCRC32, ref.CheckCRC64, ref.CheckSHA256, ref.CheckNone}[i]
			b := ref.BuildXZ(check, []ref.BlockSpec{{LZMA2: l2, Content: content, DictCode: 0, WithComp: i%2 == 0, WithUnc: i%2 == 0}})
			if o, _, err := ref.DecodeXZ(b, 0); err != nil || !bytes.Equal(o, content) {
				c.Count("generator_rejected", 1)
				break
			}
			if lzc.Available() {
				if res := lzc.DecodeXZ(b, false, 0); !res.OK() || !bytes.Equal(res.Out, content) {
					c.Count("generator_rejected", 1)
					break
				}
			}
			streams = append(streams, validStream{ID: fmt.Sprintf("fullchunk%d", target), Src: "refenc", Bytes: b, Content: content, Decl: 4096, Feat: fmt.Sprintf("fullchunk%d;chunks:LRND,raw,L,end", target)})
			break
		}
	}
	// (ii) fresh liblzma encodings, (iii) generated: built in parallel, deterministic per index
	if lzc.Available() {
		par(nfresh, func(i int) {
			r := prng.New(c.Seed, 3, uint64(i))
			fam := gen.Families[r.Intn(len(gen.Families))]
			data := gen.Data(r, fam, r.Pick(0, 1, 50, 3000, 70000, 200000))
			kind := lzc.KindXZ
			if r.Chance(1, 5) {
				kind = lzc.KindXZMT
			}
			o := lzcRandOpts(r, kind)
			feat := fmt.Sprintf("%s lc%d lp%d pb%d mf%d custom=%v check%d", fam, o.LC, o.LP, o.PB, o.MF, o.Custom, o.Check)
			if kind == lzc.KindXZMT {
				o.BlockSize = uint64(r.Pick(4096, 20000, 100000))
				feat += " mt"
			} else if len(data) > 10 && r.Bool() {
				nf := r.Range(1, 4)
				for j := 0; j < nf; j++ {
					o.FlushAt = append(o.FlushAt, r.Range(1, len(data)-1))
				}
				sort.Ints(o.FlushAt)
				for range o.FlushAt {
					o.FlushAct = append(o.FlushAct, r.Pick(lzc.SyncFlush, lzc.FullFlush))
				}
				feat += fmt.Sprintf(" flush%v", o.FlushAct)
			}
			res := lzc.Encode(data, o)
			if !res.OK() {
				c.Count("liblzma_encode_failed", 1)
				return
			}
			out, ss, err := ref.DecodeXZ(res.Out, 0)
			if err != nil || !bytes.Equal(out, data) {
				c.Count("generator_rejected", 1)
				c.Inconclusive(fmt.Sprintf("reference rejects liblzma stream fresh%d (%s): %v", i, feat, err))
				return
			}
			var decl int64
			for _, s := range ss {
				for _, bl := range s.Blocks {
					if bl.DictSize > decl {
						decl = bl.DictSize
					}
				}
			}
			judge(validStream{ID: fmt.Sprintf("fresh%d", i), Src: "liblzma", Bytes: res.Out, Content: data, Decl: decl, Feat: feat}, i)
		})
	} else {
		c.Set("liblzma_source", "skipped: liblzma not linked")
	}
	par(ngen, func(i int) {
		r := prng.New(c.Seed, 4, uint64(i))
		stream, content, feat := genXZContainer(r, thorough(c) || i%10 == 0)
		out, ss, err := ref.DecodeXZ(stream, 0)
		if err != nil || !bytes.Equal(out, content) {
			c.Count("generator_rejected", 1)
			c.Inconclusive(fmt.Sprintf("reference decoder rejects generated stream gen%d: %v", i, err))
			return
		}
		if lzc.Available() {
			res := lzc.DecodeXZ(stream, true, 0)
			if !res.OK() || !bytes.Equal(res.Out, content) {
				c.Count("generator_rejected", 1)
				c.Inconclusive(fmt.Sprintf("liblzma rejects generated stream gen%d (%s): %v", i, feat, res.Err()))
				return
			}
			c.Count("reference_agreement", 1)
		}
		var decl int64
		var st ref.Stats
		for _, s := range ss {
			for _, bl := range s.Blocks {
				if bl.DictSize > decl {
					decl = bl.DictSize
				}
				st.Add(bl.Stats)
			}
		}
		c.Count("gen_ops_literal", int64(st.Lits))
		c.Count("gen_ops_match", int64(st.Matches))
		c.Count("gen_ops_shortrep", int64(st.ShortReps))
		c.Count("gen_ops_rep0", int64(st.Reps[0]))
		c.Count("gen_ops_rep1", int64(st.Reps[1]))
		c.Count("gen_ops_rep2", int64(st.Reps[2]))
		c.Count("gen_ops_rep3", int64(st.Reps[3]))
		c.Count("gen_matches_at_window_edge", int64(st.DistAtEdge))
		c.Count("gen_matched_literals", int64(st.MatchedLits))
		judge(validStream{ID: fmt.Sprintf("gen%d", i), Src: "refenc", Bytes: stream, Content: content, Decl: decl, Feat: feat}, i)
	})
	// far distances: every distance slot a 16 MiB (thorough: 128 MiB) window can use, with three
	// kinds of filler between the probes (LZMA chunks, uncompressed chunks, both)
	for fi, fill := range []string{"rep", "raw", "mixed"} {
		maxD, code := int64(1<<24), byte(26)
		if thorough(c) {
			maxD, code = 1<<27, 32
			if fi > 0 {
				maxD, code = 1<<26, 30
			}
		}
		l2, content, probes := ref.GenFarLZMA2Fill(prng.New(c.Seed, 33, uint64(fi)), maxD, fill)
		xzs := ref.BuildXZ(ref.CheckCRC32, []ref.BlockSpec{{LZMA2: l2, Content: content, DictCode: code}})
		o, _, err := ref.DecodeXZ(xzs, 0)
		ok := err == nil && bytes.Equal(o, content)
		if ok && lzc.Available() {
			res := lzc.DecodeXZ(xzs, false, 0)
			ok = res.OK() && bytes.Equal(res.Out, content)
		}
		if !ok {
			c.Count("generator_rejected", 1)
			c.Inconclusive(fmt.Sprintf("far-distance stream (%s filler) not accepted by the references: %v", fill, err))
		} else {
			streams = append(streams, validStream{ID: "far-" + fill, Src: "refenc", Bytes: xzs, Content: content, Decl: 0, Feat: fmt.Sprintf("far-distances up to %d (%d probes), %s filler", maxD, probes, fill)})
			c.Set("far_distance_probes_"+fill, probes)
		}
	}
	c.MinEvals(int64(len(names)))
	// corpus and the far-distance stream (few, kept in memory) are judged last
	par(len(streams), func(i int) { judge(streams[i], i) })
	c.Set("streams_admitted", atomic.LoadInt64(&admitted))
	c.Set("generated_feature_histogram", featCount)
}

func clipStr(s string, n int) string {
	if len(s) > n {
		return s[:n] + "…"
	}
	return s
}

// featClass reduces a feature string to its class (chunk kind sequences are
// kept up to 6 chunks).
func featClass(f string) string {
	if len(f) > 160 {
		return f[:160]
	}
	return f
}
