// vcheck runs one property check against the ulikunitz/xz tree the module's
// replace directive points at.  Usage: vcheck <ID> <quick|thorough> [-replay file]
package main

import (
	"encoding/json"
	"fmt"
	"os"
	"runtime"
	"sort"
	"strconv"
	"sync"
	"sync/atomic"

	"verif/internal/ev"
)

type checkFn func(c *ev.Ctx)

type checkDef struct {
	level string
	fn    checkFn
}

var checks = map[string]checkDef{}

func register(id, level string, fn checkFn) { checks[id] = checkDef{level, fn} }

func main() {
	if len(os.Args) < 3 {
		ids := []string{}
		for k := range checks {
			ids = append(ids, k)
		}
		sort.Strings(ids)
		fmt.Fprintf(os.Stderr, "usage: vcheck <ID> <quick|thorough> [-replay file]\nchecks: %v\n", ids)
		os.Exit(2)
	}
	id, tier := os.Args[1], os.Args[2]
	def, ok := checks[id]
	if !ok {
		fmt.Fprintf(os.Stderr, "unknown check %s\n", id)
		os.Exit(2)
	}
	if tier != "quick" && tier != "thorough" {
		fmt.Fprintf(os.Stderr, "tier must be quick or thorough\n")
		os.Exit(2)
	}
	seed := uint64(1)
	if s := os.Getenv("VERIF_SEED"); s != "" {
		if v, err := strconv.ParseInt(s, 0, 64); err == nil {
			seed = uint64(v)
		}
	}
	dir := os.Getenv("VERIF_DIR")
	if dir == "" {
		dir = "/verif"
	}
	c := ev.New(id, tier, seed, def.level, dir)
	for i := 3; i < len(os.Args); i++ {
		if (os.Args[i] == "-replay" || os.Args[i] == "--replay") && i+1 < len(os.Args) {
			b, err := os.ReadFile(os.Args[i+1])
			if err != nil {
				fmt.Fprintf(os.Stderr, "replay: %v\n", err)
				os.Exit(2)
			}
			m := map[string]any{}
			if err := json.Unmarshal(b, &m); err != nil {
				fmt.Fprintf(os.Stderr, "replay: %v\n", err)
				os.Exit(2)
			}
			c.ReplayOf = os.Args[i+1]
			c.Replay = m
			if t, ok := m["tier"].(string); ok {
				c.Tier = t
			}
			if s, ok := m["seed"].(float64); ok {
				c.Seed = uint64(s)
			}
			i++
		}
	}
	def.fn(c)
	os.Exit(c.Finish())
}

// want tells a check whether the case with this id is to be run: always in a
// normal run, only the recorded case in replay mode.
func want(c *ev.Ctx, caseID string) bool {
	if c.ReplayOf == "" {
		return true
	}
	id, _ := c.Replay["case_id"].(string)
	return id == caseID
}

func thorough(c *ev.Ctx) bool { return c.Tier == "thorough" }

func workers() int {
	n := runtime.NumCPU()
	if s := os.Getenv("VERIF_WORKERS"); s != "" {
		if v, err := strconv.Atoi(s); err == nil && v > 0 {
			n = v
		}
	}
	return n
}

// par runs f(i) for i in [0,n) on all cores.  A panic in f is a bug of the
// harness (checks recover around library calls themselves) and ends the run.
func par(n int, f func(i int)) {
	var next int64 = -1
	var wg sync.WaitGroup
	w := workers()
	if w > n {
		w = n
	}
	for k := 0; k < w; k++ {
		wg.Add(1)
		go func() {
			defer wg.Done()
			for {
				i := int(atomic.AddInt64(&next, 1))
				if i >= n {
					return
				}
				f(i)
			}
		}()
	}
	wg.Wait()
}
