// vcheck runs one property check against the ulikunitz/xz tree the module's
// replace directive points at.  Usage: vcheck <ID> <quick|thorough> [-replay file]
package main

import (
	"encoding/json"
	"fmt"
	"os"
	"runtime"
	"sort"
	"strconv"
	"sync"
	"sync/atomic"
	"syscall"
	"time"

	"verif/internal/ev"
)

type checkFn func(c *ev.Ctx)

type checkDef struct {
	level string
	fn    checkFn
}

var checks = map[string]checkDef{}

func register(id, level string, fn checkFn) { checks[id] = checkDef{level, fn} }

func main() {
	if len(os.Args) < 3 {
		ids := []string{}
		for k := range checks {
			ids = append(ids, k)
		}
		sort.Strings(ids)
		fmt.Fprintf(os.Stderr, "usage: vcheck <ID> <quick|thorough> [-replay file]\nchecks: %v\n", ids)
		os.Exit(2)
	}
	id, tier := os.Args[1], os.Args[2]
	def, ok := checks[id]
	if !ok {
		fmt.Fprintf(os.Stderr, "unknown check %s\n", id)
		os.Exit(2)
	}
	if tier != "quick" && tier != "thorough" {
		fmt.Fprintf(os.Stderr, "tier must be quick or thorough\n")
		os.Exit(2)
	}
	seed := uint64(1)
	if s := os.Getenv("VERIF_SEED"); s != "" {
		if v, err := strconv.ParseInt(s, 0, 64); err == nil {
			seed = uint64(v)
		}
	}
	dir := os.Getenv("VERIF_DIR")
	if dir == "" {
		dir = "/verif"
	}
	c := ev.New(id, tier, seed, def.level, dir)
	for i := 3; i < len(os.Args); i++ {
		if (os.Args[i] == "-replay" || os.Args[i] == "--replay") && i+1 < len(os.Args) {
			b, err := os.ReadFile(os.Args[i+1])
			if err != nil {
				fmt.Fprintf(os.Stderr, "replay: %v\n", err)
				os.Exit(2)
			}
			m := map[string]any{}
			if err := json.Unmarshal(b, &m); err != nil {
				fmt.Fprintf(os.Stderr, "replay: %v\n", err)
				os.Exit(2)
			}
			c.ReplayOf = os.Args[i+1]
			c.Replay = m
			if t, ok := m["tier"].(string); ok {
				c.Tier = t
			}
			if s, ok := m["seed"].(float64); ok {
				c.Seed = uint64(s)
			}
			i++
		}
	}
	curCtx = c
	go stallWatch(c)
	def.fn(c)
	c.Set("max_case_cpu_s", float64(atomic.LoadInt64(&maxCaseTicks))/100)
	os.Exit(c.Finish())
}

// Stall monitor for everything that runs under par(): every worker is locked to an OS thread
// and notes the thread CPU time at the start of each case; a case whose thread has consumed
// more than the limit of CPU time without returning is reported as a violation (a library call
// that spins never returns an error the oracles could judge, and would otherwise hang the
// check).  CPU time of the worker's own thread, not wall-clock time, so a loaded machine does
// not trigger it.  The largest per-case CPU time observed goes into the evidence
// (max_case_cpu_s) to show the margin.
type parWorker struct {
	tid   int32
	start int64
	idx   int64
	busy  int32
}

var (
	curCtx       *ev.Ctx
	parWorkers   sync.Map // tid -> *parWorker
	caseLabels   sync.Map // tid -> string
	maxCaseTicks int64
)

// noteCase records the id of the case the calling worker is about to run.
func noteCase(id string) { caseLabels.Store(int32(syscall.Gettid()), id) }

func stallLimitS(c *ev.Ctx) int64 {
	if s := os.Getenv("VERIF_STALL_S"); s != "" {
		if v, err := strconv.Atoi(s); err == nil && v > 0 {
			return int64(v)
		}
	}
	if c.Tier == "thorough" {
		return 900
	}
	return 240
}

func stallWatch(c *ev.Ctx) {
	lim := stallLimitS(c) * 100
	for {
		time.Sleep(2 * time.Second)
		parWorkers.Range(func(_, v any) bool {
			w := v.(*parWorker)
			if atomic.LoadInt32(&w.busy) == 0 {
				return true
			}
			t, st := threadTicks(w.tid), atomic.LoadInt64(&w.start)
			if t < 0 || st < 0 || t-st <= lim {
				return true
			}
			id := fmt.Sprintf("par-index-%d", atomic.LoadInt64(&w.idx))
			if l, ok := caseLabels.Load(w.tid); ok {
				id = l.(string)
			}
			c.Violation("cpu-stall", map[string]any{"case_id": id, "what": fmt.Sprintf("case %s: the library calls of this case consumed more than %d s of thread CPU time without returning (spinning call); the check cannot continue", id, lim/100)})
			os.Exit(c.Finish())
			return false
		})
	}
}

// want tells a check whether the case with this id is to be run: always in a
// normal run, only the recorded case in replay mode.
func want(c *ev.Ctx, caseID string) bool {
	if c.ReplayOf == "" {
		return true
	}
	id, _ := c.Replay["case_id"].(string)
	return id == caseID
}

func thorough(c *ev.Ctx) bool { return c.Tier == "thorough" }

func workers() int {
	n := runtime.NumCPU()
	if s := os.Getenv("VERIF_WORKERS"); s != "" {
		if v, err := strconv.Atoi(s); err == nil && v > 0 {
			n = v
		}
	}
	return n
}

// par runs f(i) for i in [0,n) on all cores.  A panic in f is a bug of the
// harness (checks recover around library calls themselves) and ends the run.
func par(n int, f func(i int)) {
	var next int64 = -1
	var wg sync.WaitGroup
	w := workers()
	if w > n {
		w = n
	}
	for k := 0; k < w; k++ {
		wg.Add(1)
		go func() {
			defer wg.Done()
			runtime.LockOSThread()
			defer runtime.UnlockOSThread()
			pw := &parWorker{tid: int32(syscall.Gettid())}
			parWorkers.Store(pw.tid, pw)
			defer parWorkers.Delete(pw.tid)
			for {
				i := int(atomic.AddInt64(&next, 1))
				if i >= n {
					return
				}
				t0 := threadTicks(pw.tid)
				atomic.StoreInt64(&pw.idx, int64(i))
				atomic.StoreInt64(&pw.start, t0)
				atomic.StoreInt32(&pw.busy, 1)
				f(i)
				atomic.StoreInt32(&pw.busy, 0)
				if d := threadTicks(pw.tid) - t0; t0 >= 0 {
					for {
						m := atomic.LoadInt64(&maxCaseTicks)
						if d <= m || atomic.CompareAndSwapInt64(&maxCaseTicks, m, d) {
							break
						}
					}
				}
			}
		}()
	}
	wg.Wait()
}
