// Package fuzz holds the Go native fuzz targets used by the thorough tier of
// C11 as an additional, coverage-guided input source.  The monitors are the same
// as in cmd/vcheck/c11.go: a panic fails the target (the fuzzing engine records
// the input), n must stay within the buffer, and a logical stall fails it.
package fuzz

import (
	"encoding/binary"
	"io"
	"os"
	"path/filepath"
	"testing"

	"github.com/ulikunitz/xz"
	"github.com/ulikunitz/xz/lzma"

	"verif/internal/mon"
)

func seedCorpus(f *testing.F, sub string) {
	files, _ := filepath.Glob(filepath.Join("..", "corpus", sub, "*"))
	n := 0
	for _, p := range files {
		b, err := os.ReadFile(p)
		if err == nil && len(b) < 6000 {
			f.Add(b)
			n++
		}
	}
	f.Add([]byte{})
}

func drive(t *testing.T, open func(src io.Reader) (io.Reader, error), in []byte) {
	src := mon.NewSource(in)
	r, err := open(src)
	if err != nil {
		return
	}
	buf := make([]byte, 1+len(in)%4093)
	total, zero := 0, 0
	for total < 1<<20 {
		n, err := r.Read(buf)
		if n < 0 || n > len(buf) {
			t.Fatalf("Read returned n=%d for a buffer of %d", n, len(buf))
		}
		total += n
		if err != nil {
			return
		}
		if n == 0 {
			zero++
			if zero > 1000 {
				t.Fatalf("1000 consecutive (0, nil) results")
			}
		} else {
			zero = 0
		}
		if src.CallsAfterEnd > 1000 {
			t.Fatalf("more than 1000 source calls after exhaustion")
		}
	}
}

func FuzzXZ(f *testing.F) {
	seedCorpus(f, "xz")
	f.Fuzz(func(t *testing.T, in []byte) {
		// dictionary bound of the quantifier: the dictionary byte sits behind a CRC32,
		// inputs that get it past the CRC with a code above 28 are skipped
		if len(in) > 20 && in[12] != 0 {
			hs := (int(in[12]) + 1) * 4
			for i := 14; i+2 < 12+hs-4 && i+2 < len(in); i++ {
				if in[i] == 0x21 && in[i+1] == 1 && in[i+2] > 28 {
					return
				}
			}
		}
		drive(t, func(s io.Reader) (io.Reader, error) { return xz.ReaderConfig{DictCap: 4096}.NewReader(s) }, in)
		drive(t, func(s io.Reader) (io.Reader, error) {
			return xz.ReaderConfig{DictCap: 4096, SingleStream: true}.NewReader(s)
		}, in)
	})
}

func FuzzLZMA(f *testing.F) {
	seedCorpus(f, "lzma")
	f.Fuzz(func(t *testing.T, in []byte) {
		if len(in) >= 5 && binary.LittleEndian.Uint32(in[1:]) > 1<<20 {
			in = append([]byte(nil), in...)
			binary.LittleEndian.PutUint32(in[1:], binary.LittleEndian.Uint32(in[1:])%(1<<20))
		}
		drive(t, func(s io.Reader) (io.Reader, error) { return lzma.ReaderConfig{DictCap: 4096}.NewReader(s) }, in)
	})
}

func FuzzLZMA2(f *testing.F) {
	// raw LZMA2: the chunk sequences inside the corpus .xz files (offset 24 = after
	// stream header and the usual 12-byte block header)
	files, _ := filepath.Glob(filepath.Join("..", "corpus", "xz", "*"))
	for _, p := range files {
		b, err := os.ReadFile(p)
		if err == nil && len(b) > 40 && len(b) < 6000 {
			f.Add(b[24 : len(b)-28])
		}
	}
	f.Fuzz(func(t *testing.T, in []byte) {
		drive(t, func(s io.Reader) (io.Reader, error) { return lzma.Reader2Config{DictCap: 65536}.NewReader2(s) }, in)
	})
}
