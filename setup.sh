#!/bin/bash
# Run once after a fresh restore, offline.  Builds the helper tools and probes
# optional oracles; everything lives under /verif/.work.
set -u
cd "$(dirname "$0")"
V=$(pwd)
export GOFLAGS=-mod=mod GOPROXY=off GOSUMDB=off GOTOOLCHAIN=local CGO_ENABLED=1
W=$V/.work
mkdir -p "$W/bin" "$W/logs"
: > "$W/capabilities"
# optional foreign oracle: liblzma through cgo
if [ -d internal/lzc ] && go build -tags liblzma -o /dev/null ./internal/lzc 2> "$W/logs/setup-lzc.log"; then
  echo liblzma=1 >> "$W/capabilities"
else
  echo liblzma=0 >> "$W/capabilities"
fi
if command -v xz >/dev/null 2>&1; then echo "xzcli=$(command -v xz)" >> "$W/capabilities"; else echo xzcli= >> "$W/capabilities"; fi
# ptrace stepper for the gxz properties
if [ -f tools/sysstep.c ]; then
  if gcc -O2 -Wall -o "$W/bin/sysstep" tools/sysstep.c 2> "$W/logs/setup-sysstep.log"; then echo sysstep=1 >> "$W/capabilities"; else echo sysstep=0 >> "$W/capabilities"; fi
fi
# warm the build cache
TAGS=""; grep -q liblzma=1 "$W/capabilities" && TAGS="-tags liblzma"
go build $TAGS -o "$W/bin/vcheck_repo" ./cmd/vcheck || exit 1
cat "$W/capabilities"
exit 0
