#!/bin/bash
# tools/basecheck.sh <outfile>: runs every quick check against a scratch worktree of the
# pinned commit (before the fix: commits) and lists which ones report violations there.
V=$(cd "$(dirname "$0")/.." && pwd)
OUT=$1
B=/tmp/base
[ -d $B ] || git -C /repo worktree add -q --detach $B b181786
: > $OUT
for c in C01 C02 C03 C04 C05 C06 C07 C08 C09 C10 C11 C12 C13 C14 C15 C16 C17 C18; do
  o=$(VERIF_REPO=$B $V/check $c quick 2>&1)
  n=$(echo "$o" | grep -c '^VIOLATION')
  sigs=$(echo "$o" | grep 'signature:' | sed 's/ *signature: //' | sort -u | tr '\n' ';' | cut -c1-300)
  echo "$c violations_printed=$n $(echo "$o" | tail -1 | grep -o 'VIOLATED ([0-9]*)\|held[^;]*') :: $sigs" >> $OUT
done
echo DONE >> $OUT
