#!/usr/bin/env python3
# tools/mktask.py <suffix> <focus-file.json>: writes /tmp/sa/out/<Cxx><suffix>/TASK.md for the
# sub-agents that seed property-breaking changes.  The task text contains only the property
# (title, statement, quantifier) and working instructions; nothing about /verif.
import json, sys, os
suffix = sys.argv[1]
focus = json.load(open(sys.argv[2])) if len(sys.argv) > 2 else {}
props = [json.loads(l) for l in open('/verif/properties.jsonl')]
T = """# Task

You are given a scratch git worktree of the Go module `github.com/ulikunitz/xz` (pure-Go xz / LZMA / LZMA2
library plus the `gxz` command line tool) at `{wt}`.  Work only inside that directory and inside
`{out}` (for what you hand in).  Do not look at or touch `/repo`, `/verif` or any other directory
(`/tmp/sa/*` of other ids included).  There is no network.

Every shell call needs: `export GOFLAGS=-mod=mod GOPROXY=off GOSUMDB=off GOTOOLCHAIN=local`.
The repository's test suite is: `cd {wt} && go test -vet=off -count=1 ./...` (it passes now).

## The property

The library's users rely on this property (it is supposed to hold for every input / configuration /
schedule, not just the ones the unit tests sample):

**{title}**

Statement: {statement}

Quantifier: {quant}

## What to produce

Make ONE realistic change to the source of ulikunitz/xz (non-test `.go` files; a few lines up to a few
dozen lines; one site, or two cooperating sites that each look fine alone) such that

1. the module still compiles and the **existing test suite still passes unchanged** (do not edit, add or
   delete tests in the patch; do not touch testdata);
2. the property above is **really broken** for some input / configuration / call history / schedule /
   fault point - i.e. a user of the public API (or of the `gxz` binary) can observe the violation of
   exactly what the statement promises;
3. the break **needs something specific to manifest**: a particular size or alignment, a rare
   configuration value, an unusual but legal input (for readers: a construct that a *foreign* encoder
   emits but this library's own writer never does), a multi-step sequence of calls, a fault or crash
   at a particular point, a particular interleaving, or two sites that only misbehave together.
   Ordinary use (compress some text with defaults, decompress it) must still work.  Changes that
   the first casual round trip exposes are not wanted.
4. the change looks like something a maintainer could plausibly commit: a refactoring that is subtly
   not equivalent, an "optimisation", a boundary off by one, a condition simplified, an error path
   tidied up, state cached/reused, a check moved.  No `if input == magic` back doors, no random or
   time-dependent behaviour, no obviously malicious code.

{focus}

Read the relevant source first and pick a place where you understand precisely why the property
breaks and what is needed to trigger it.

## Demonstration

Write a demonstration that FAILS with your change and PASSES without it:
* for library properties: one Go test file `demo_test.go` (package `xz`, `lzma` or an external
  `_test` package; it will be copied into the matching package directory of the repository as
  `zz_demo_test.go`; test function names must start with `TestDemo`); it may use only the standard
  library and the module itself, must be deterministic, and must finish in under 60 s;
* for `gxz` properties a Go test in package `main` of `cmd/gxz` that builds/executes the binary with
  `go build`/`os/exec` in a temp dir is fine (same naming rule), or test the functions directly.
Verify yourself: run the demo without the change (must pass), with the change (must fail), and the whole
suite with the change (must pass).  Do NOT use `git stash` (the stash is shared by all worktrees of this repository and other people work in sibling worktrees): to test without your change use `git diff > /tmp/sa/out/<id>/patch.diff; git checkout -- .` and re-apply with `git apply`;
leave the worktree with your change applied and the demo file NOT part of the patch.

## Hand in (files in `{out}`)

* `patch.diff` - output of `git diff` in the worktree (source change only, applies with `git apply`
  to a clean checkout of the same commit);
* `demo_test.go` - the demonstration;
* `notes.md` - which file/function you changed and why it looks innocent; exactly why the property is
  violated; exactly what is needed to make it manifest (sizes, configs, call sequence, fault point,
  interleaving ...); what you ran and what you saw (with / without the change; suite result).

Your final message should be a 5-10 line summary of the same.
"""
for p in props:
    pid = p['id']; mid = pid + suffix
    out = f'/tmp/sa/out/{mid}'; os.makedirs(out, exist_ok=True)
    f = focus.get(pid, focus.get('*', ''))
    if f: f = '## Focus for this round\n\n' + f + '\n'
    open(out + '/TASK.md', 'w').write(T.format(wt=f'/tmp/sa/{mid}', out=out, title=p['title'],
        statement=p['statement'], quant=p['quantifier']['text'], focus=f))
print('ok')
