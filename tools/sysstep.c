// sysstep: ptrace-based syscall stepper used by the gxz checks (C10, C15).
// It runs a command, counts the file-system syscalls that touch paths under a
// prefix (globally across threads, in the order they are entered) and can kill
// the process before / after the N-th one or make the N-th one fail with an errno.
//   sysstep -p <prefix> -o <log> [-1] [-k N | -K N | -f N errno [-P] | -s N signo] -- cmd args...
// Log: one JSON object per relevant syscall, last line {"exit":..,"killed":..,"count":..}.
#define _GNU_SOURCE
#include <errno.h>
#include <fcntl.h>
#include <signal.h>
#include <stdio.h>
#include <stdlib.h>
#include <string.h>
#include <sys/ptrace.h>
#include <sys/syscall.h>
#include <sys/types.h>
#include <sys/user.h>
#include <sys/wait.h>
#include <unistd.h>

#define MAXT 256
#define MAXFD 1024
static struct { pid_t tid; int insys; long nr; int idx; int interesting; int failerr; long a0; } T[MAXT];
static int nT;
static char fdpath[MAXFD][512];
static const char *prefix = "";
static int mode = 0; // 0 record, 1 kill-before, 2 kill-after, 3 fail, 4 signal-before
static int signo = 0;
static int target = -1, ferrno = 0, persist = 0;
static int counter = 0;
static FILE *logf;
static pid_t mainpid;

static int tslot(pid_t tid) {
	for (int i = 0; i < nT; i++) if (T[i].tid == tid) return i;
	T[nT].tid = tid; T[nT].insys = 0; return nT++;
}

static void readstr(pid_t tid, unsigned long addr, char *buf, size_t n) {
	size_t i = 0;
	while (i + 1 < n) {
		errno = 0;
		long w = ptrace(PTRACE_PEEKDATA, tid, addr + i, 0);
		if (errno) break;
		for (int k = 0; k < 8 && i + 1 < n; k++) {
			char c = (w >> (8 * k)) & 0xff;
			buf[i++] = c;
			if (!c) return;
		}
	}
	buf[i] = 0;
}

static int relok = 0; // -r: the command runs with the prefix directory as working directory, relative paths count
// underprefix tells whether a path argument lies in the watched directory; with -r a relative
// path does (it is rewritten to prefix/path so that the log and the descriptor table hold
// absolute names).
static int underprefix(char *p) {
	if (relok && p[0] && p[0] != '/') {
		char tmp[512];
		const char *q = p;
		if (q[0] == '.' && q[1] == '/') q += 2;
		snprintf(tmp, sizeof tmp, "%s/%s", prefix, q);
		strcpy(p, tmp);
		return 1;
	}
	return strncmp(p, prefix, strlen(prefix)) == 0;
}

static const char *sname(long nr) {
	switch (nr) {
	case SYS_openat: return "openat"; case SYS_open: return "open"; case SYS_creat: return "creat";
	case SYS_read: return "read"; case SYS_pread64: return "pread64";
	case SYS_write: return "write"; case SYS_pwrite64: return "pwrite64"; case SYS_writev: return "writev";
	case SYS_close: return "close"; case SYS_rename: return "rename"; case SYS_renameat: return "renameat";
	case SYS_renameat2: return "renameat2"; case SYS_unlink: return "unlink"; case SYS_unlinkat: return "unlinkat";
	case SYS_fsync: return "fsync"; case SYS_fdatasync: return "fdatasync"; case SYS_ftruncate: return "ftruncate";
	case SYS_fchmod: return "fchmod"; case SYS_fchmodat: return "fchmodat"; case SYS_chmod: return "chmod";
	case SYS_newfstatat: return "newfstatat"; case SYS_fstat: return "fstat"; case SYS_lstat: return "lstat"; case SYS_stat: return "stat";
	case SYS_truncate: return "truncate"; case SYS_link: return "link"; case SYS_linkat: return "linkat";
	case SYS_symlink: return "symlink"; case SYS_symlinkat: return "symlinkat"; case SYS_mkdir: return "mkdir"; case SYS_mkdirat: return "mkdirat";
	case SYS_rmdir: return "rmdir"; case SYS_chown: return "chown"; case SYS_lchown: return "lchown"; case SYS_fchownat: return "fchownat";
	case SYS_fchown: return "fchown"; case SYS_utimensat: return "utimensat"; case SYS_fallocate: return "fallocate";
	case SYS_copy_file_range: return "copy_file_range"; case SYS_sendfile: return "sendfile"; case SYS_statx: return "statx";
	}
	return NULL;
}

int main(int argc, char **argv) {
	int ai = 1;
	const char *logpath = NULL;
	int stdoutwrites = 0;
	while (ai < argc && strcmp(argv[ai], "--")) {
		if (!strcmp(argv[ai], "-p")) prefix = argv[++ai];
		else if (!strcmp(argv[ai], "-o")) logpath = argv[++ai];
		else if (!strcmp(argv[ai], "-k")) { mode = 1; target = atoi(argv[++ai]); }
		else if (!strcmp(argv[ai], "-K")) { mode = 2; target = atoi(argv[++ai]); }
		else if (!strcmp(argv[ai], "-f")) { mode = 3; target = atoi(argv[++ai]); ferrno = atoi(argv[++ai]); }
		else if (!strcmp(argv[ai], "-s")) { mode = 4; target = atoi(argv[++ai]); signo = atoi(argv[++ai]); }
		else if (!strcmp(argv[ai], "-P")) persist = 1;
		else if (!strcmp(argv[ai], "-1")) stdoutwrites = 1;
		else if (!strcmp(argv[ai], "-r")) relok = 1;
		ai++;
	}
	ai++;
	logf = logpath ? fopen(logpath, "w") : stderr;
	pid_t pid = fork();
	if (pid == 0) {
		ptrace(PTRACE_TRACEME, 0, 0, 0);
		raise(SIGSTOP);
		execvp(argv[ai], argv + ai);
		_exit(127);
	}
	mainpid = pid;
	int st;
	waitpid(pid, &st, 0);
	ptrace(PTRACE_SETOPTIONS, pid, 0, PTRACE_O_TRACESYSGOOD | PTRACE_O_TRACECLONE | PTRACE_O_TRACEFORK | PTRACE_O_TRACEVFORK | PTRACE_O_TRACEEXEC | PTRACE_O_EXITKILL);
	ptrace(PTRACE_SYSCALL, pid, 0, 0);
	int exitcode = -1, killed = 0;
	long failnr = -1;
	for (;;) {
		pid_t tid = waitpid(-1, &st, __WALL);
		if (tid < 0) break;
		if (WIFEXITED(st) || WIFSIGNALED(st)) {
			if (tid == mainpid) { exitcode = WIFEXITED(st) ? WEXITSTATUS(st) : 128 + WTERMSIG(st); }
			continue;
		}
		if (!WIFSTOPPED(st)) continue;
		int sig = WSTOPSIG(st);
		int s = tslot(tid);
		if (sig == (SIGTRAP | 0x80)) {
			struct user_regs_struct r;
			ptrace(PTRACE_GETREGS, tid, 0, &r);
			if (!T[s].insys) {
				T[s].insys = 1; T[s].nr = r.orig_rax; T[s].interesting = 0; T[s].failerr = 0; T[s].a0 = r.rdi;
				long nr = r.orig_rax;
				char path[512] = "", path2[512] = "";
				int fd = -1, intr = 0;
				switch (nr) {
				case SYS_openat: readstr(tid, r.rsi, path, sizeof path); intr = underprefix(path); break;
				case SYS_open: case SYS_creat: case SYS_unlink: case SYS_chmod: case SYS_stat: case SYS_lstat:
				case SYS_truncate: case SYS_mkdir: case SYS_rmdir: case SYS_chown: case SYS_lchown:
					readstr(tid, r.rdi, path, sizeof path); intr = underprefix(path); break;
				case SYS_unlinkat: case SYS_fchmodat: case SYS_newfstatat: case SYS_mkdirat: case SYS_fchownat: case SYS_utimensat: case SYS_statx:
					readstr(tid, r.rsi, path, sizeof path); intr = underprefix(path); break;
				case SYS_rename: readstr(tid, r.rdi, path, sizeof path); readstr(tid, r.rsi, path2, sizeof path2); intr = underprefix(path) || underprefix(path2); break;
				case SYS_link: case SYS_symlink: readstr(tid, r.rdi, path, sizeof path); readstr(tid, r.rsi, path2, sizeof path2); intr = underprefix(path) || underprefix(path2); break;
				case SYS_linkat: readstr(tid, r.rsi, path, sizeof path); readstr(tid, r.r10, path2, sizeof path2); intr = underprefix(path) || underprefix(path2); break;
				case SYS_symlinkat: readstr(tid, r.rdi, path, sizeof path); readstr(tid, r.rdx, path2, sizeof path2); intr = underprefix(path) || underprefix(path2); break;
				case SYS_renameat: case SYS_renameat2: readstr(tid, r.rsi, path, sizeof path); readstr(tid, r.r10, path2, sizeof path2); intr = underprefix(path) || underprefix(path2); break;
				case SYS_read: case SYS_pread64: case SYS_write: case SYS_pwrite64: case SYS_writev: case SYS_close:
				case SYS_fsync: case SYS_fdatasync: case SYS_ftruncate: case SYS_fchmod: case SYS_fstat:
				case SYS_fchown: case SYS_fallocate: case SYS_copy_file_range: case SYS_sendfile:
					fd = (int)r.rdi;
					if (fd >= 0 && fd < MAXFD && fdpath[fd][0]) { intr = 1; strcpy(path, fdpath[fd]); }
					if (!intr && (nr == SYS_copy_file_range || nr == SYS_sendfile)) {
						// second descriptor: copy_file_range(fd_in, off, fd_out, ...), sendfile(out_fd, in_fd, ...)
						int fd2 = nr == SYS_sendfile ? (int)r.rsi : (int)r.rdx;
						if (fd2 >= 0 && fd2 < MAXFD && fdpath[fd2][0]) { intr = 1; strcpy(path, fdpath[fd2]); }
					}
					if (stdoutwrites && fd == 1 && nr == SYS_write) { intr = 1; strcpy(path, "<stdout>"); }
					break;
				}
				if (intr) {
					counter++;
					T[s].interesting = 1; T[s].idx = counter;
					fprintf(logf, "{\"i\":%d,\"tid\":%d,\"sys\":\"%s\",\"fd\":%d,\"path\":\"%s\",\"path2\":\"%s\",\"arg2\":%lld,\"arg3\":%lld", counter, tid, sname(nr), fd, path, path2, (long long)r.rdx, (long long)r.r10);
					if (mode == 1 && counter == target) {
						fprintf(logf, ",\"inject\":\"kill-before\"}\n"); fflush(logf);
						kill(mainpid, SIGKILL); killed = 1;
						continue;
					}
					if (mode == 4 && counter == target) {
						fprintf(logf, ",\"inject\":\"signal\"");
						kill(mainpid, signo);
					}
					if (mode == 3 && (counter == target || (persist && counter > target && nr == failnr))) {
						if (counter == target) failnr = nr;
						T[s].failerr = ferrno;
						r.orig_rax = -1;
						ptrace(PTRACE_SETREGS, tid, 0, &r);
					}
				}
			} else {
				T[s].insys = 0;
				if (T[s].interesting) {
					long ret = r.rax;
					if (T[s].failerr) {
						r.rax = -(long)T[s].failerr;
						ptrace(PTRACE_SETREGS, tid, 0, &r);
						ret = r.rax;
						fprintf(logf, ",\"inject\":\"errno\"");
					}
					long nr = T[s].nr;
					if ((nr == SYS_openat || nr == SYS_open || nr == SYS_creat) && ret >= 0 && ret < MAXFD) {
						char path[512];
						// re-read path: registers still hold args at exit
						readstr(tid, nr == SYS_openat ? r.rsi : r.rdi, path, sizeof path);
						underprefix(path);
						strcpy(fdpath[ret], path);
					}
					if (nr == SYS_close && ret == 0) { int fd = (int)T[s].a0; if (fd >= 0 && fd < MAXFD) fdpath[fd][0] = 0; }
					fprintf(logf, ",\"ret\":%ld}\n", ret); fflush(logf);
					if (mode == 2 && T[s].idx == target) {
						kill(mainpid, SIGKILL); killed = 1;
						continue;
					}
				}
			}
			ptrace(PTRACE_SYSCALL, tid, 0, 0);
			continue;
		}
		if (sig == SIGTRAP && (st >> 16)) { // ptrace event (clone/exec...)
			ptrace(PTRACE_SYSCALL, tid, 0, 0);
			continue;
		}
		if (sig == SIGSTOP && !T[s].insys && tid != mainpid) { // new thread initial stop
			ptrace(PTRACE_SYSCALL, tid, 0, 0);
			continue;
		}
		ptrace(PTRACE_SYSCALL, tid, 0, sig);
	}
	fprintf(logf, "{\"exit\":%d,\"killed\":%d,\"count\":%d}\n", exitcode, killed, counter);
	fclose(logf);
	return 0;
}
