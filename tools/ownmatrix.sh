#!/bin/bash
# tools/ownmatrix.sh <tier> <outfile> [ids...]: every seeded change against the check of its own property.
V=$(cd "$(dirname "$0")/.." && pwd)
TIER=$1; OUT=$2; shift 2
MUTS="$@"; [ -z "$MUTS" ] && MUTS=$(cd $V/seeded && ls -d C*)
for m in $MUTS; do ONLY=${m:0:3} $V/tools/matrix.sh $TIER $OUT.part $m; grep -v DONE $OUT.part >> $OUT; rm -f $OUT.part; done
echo DONE >> $OUT
