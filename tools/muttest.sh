#!/bin/bash
# tools/muttest.sh <patch.diff> <tier> <check-id>...  : applies the patch to a scratch
# worktree of /repo (never to /repo itself), runs the named checks against it and
# prints per check whether a VIOLATION was reported.  For development, not a check.
P=$1; TIER=$2; shift 2
N=$(basename $(dirname $P))
D=${MT_DIR:-/tmp/mt}/$N
rm -rf $D; mkdir -p ${MT_DIR:-/tmp/mt}
git -C /repo worktree add -q --detach $D HEAD || exit 2
if ! git -C $D apply $P; then echo "$N: PATCH DOES NOT APPLY"; git -C /repo worktree remove --force $D; exit 2; fi
for c in "$@"; do
  out=$(VERIF_REPO=$D /verif/check $c $TIER 2>&1)
  rc=$?
  if echo "$out" | grep -q '^VIOLATION'; then echo "$N $c: CAUGHT ($(echo "$out" | grep -m1 signature | cut -c1-150))";
  else echo "$N $c: missed rc=$rc $(echo "$out" | tail -1 | cut -c1-150)"; fi
done
git -C /repo worktree remove --force $D
rm -f /verif/.work/bin/vcheck_tmp_mt_$N /verif/.work/go._tmp_mt_$N.*
