#!/bin/bash
# tools/confirm_mutant.sh <dir with patch.diff demo_test.go notes.md>
# Confirms in a scratch worktree (never in /repo): patch applies, suite passes with it,
# demo fails with it and passes without it.  Prints one line of verdicts.
export GOFLAGS=-mod=mod GOPROXY=off GOSUMDB=off GOTOOLCHAIN=local
M=$1; N=$(basename $M)
D=/tmp/cm/$N; rm -rf $D; mkdir -p /tmp/cm
git -C /repo worktree add -q --detach $D HEAD || exit 2
pkg=$(grep -m1 '^package ' $M/demo_test.go | awk '{print $2}')
case "$pkg" in xz|xz_test) sub=. ;; lzma|lzma_test) sub=lzma ;; main) sub=cmd/gxz ;; *) sub=. ;; esac
cp $M/demo_test.go $D/$sub/zz_demo_test.go
cd $D
RF=''; [ -n "${RACE:-}" ] && RF=-race
clean=$(go test $RF -vet=off -count=1 -run 'Demo|C[0-9][0-9]' ./$sub/ 2>&1 | tail -1 | cut -c1-60)
if ! git apply $M/patch.diff 2>/dev/null; then echo "$N: PATCH-DOES-NOT-APPLY"; cd /; git -C /repo worktree remove --force $D; exit 1; fi
mut=$(go test $RF -vet=off -count=1 -run 'Demo|C[0-9][0-9]' ./$sub/ 2>&1 | tail -1 | cut -c1-60)
rm $D/$sub/zz_demo_test.go
suite=$(go test -vet=off -count=1 ./... 2>&1 | grep -c -E '^(FAIL|---)')
echo "$N: pkgdir=$sub clean=[$clean] mutated=[$mut] suite_failures=$suite"
cd /; git -C /repo worktree remove --force $D
