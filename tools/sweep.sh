#!/bin/bash
# tools/sweep.sh <tier> <outfile> <seeds...>: silence sweep of every check on the unchanged tree.
V=$(cd "$(dirname "$0")/.." && pwd)
TIER=$1; OUT=$2; shift 2
for s in "$@"; do
  for c in ${ONLY:-C01 C02 C03 C04 C05 C06 C07 C08 C09 C10 C11 C12 C13 C14 C15 C16 C17 C18}; do
    o=$(VERIF_SEED=$s VERIF_EVIDENCE_DIR=$V/.work/evidence-sweep $V/check $c $TIER 2>&1); rc=$?
    echo "seed=$s $c rc=$rc $(echo "$o" | grep -c '^VIOLATION') violations, $(echo "$o" | grep -c '^INCONCLUSIVE') inconclusive :: $(echo "$o" | tail -1 | cut -c1-160)" >> $OUT
  done
done
echo DONE >> $OUT
