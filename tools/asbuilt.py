#!/usr/bin/env python3
"""Prints a markdown table of what the evidence files in evidence/ (or the directory given) say:
tier, evaluations, distinct non-trivial classes, inconclusive, wall time, largest per-case CPU time."""
import json, sys, os
d = sys.argv[1] if len(sys.argv) > 1 else os.path.join(os.path.dirname(os.path.dirname(os.path.abspath(__file__))), "evidence")
print("| check | tier | evaluations | distinct non-trivial | inconclusive | wall s | max case CPU s |")
print("|---|---|---|---|---|---|---|")
for i in range(1, 19):
    f = os.path.join(d, "C%02d.json" % i)
    if not os.path.exists(f):
        continue
    e = json.load(open(f)); c = e["coverage"]
    print("| C%02d | %s | %s | %s | %s | %.0f | %s |" % (i, e["tier"], c.get("evaluations"), c.get("distinct_nontrivial"), c.get("inconclusive"), e.get("wall_s", 0), c.get("max_case_cpu_s", "")))
