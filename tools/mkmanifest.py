#!/usr/bin/env python3
"""Regenerates /verif/MANIFEST.json from the table below (run by hand after
adding a check; not run by the checks)."""
import json, os, subprocess
V = os.path.dirname(os.path.dirname(os.path.abspath(__file__)))

def repo_fix_commits():
    return []

CHECKS = {
 "C14": ("exploration", "Go race detector over a concurrent multi-instance workload with yield injection, plus cross-checking against sequential runs",
   "A -race build of the workload runs independent writer/reader instances of all three formats in 2..32 goroutines through yielding sinks/sources, in separate processes for GOMAXPROCS 1,2,4,16; race reports are counted from the detector's log (halt_on_error=0, de-duplicated by library entry-point pair); every goroutine's output is compared with the same job run alone afterwards (instances with failing sinks/sources, retried and abandoned calls run next to and right before the judged ones; two processes run without the interleaving recorder whose atomics would order goroutines for the detector), and outputs are compared across goroutines, GOMAXPROCS settings and processes. The evidence lists instance runs, boundary calls, observed goroutine switches and distinct interleaving signatures.",
   "Schedules are sampled by the Go scheduler; the race detector only sees accesses that happened; no golden digests.", "4 C14"),
 "C10": ("fault_enumeration", "ptrace syscall stepping of the unmodified gxz binary: crash-point and errno-fault enumeration with a directory-state oracle",
   "For each scenario a record pass lists every file-system syscall touching the scenario directory; (absolute and relative file names, truncated inputs cut where exactly one io.Copy buffer is decodable; the stepper's view is cross-checked against strace -f -y; after every killed run the same command is run again in the directory as left) the run is then repeated killing the process before and after each of them and failing each with every meaningful errno (once / persistently); after every run the directory and exit status are compared with invariants I1-I6 (data exists in one complete form, input never modified, failed runs leave input and target untouched, success means complete target, no temporary file, failures exit non-zero).",
   "Crash points = instants between observed syscalls; power-loss durability is out of scope; completeness of observation is self-checked on the record pass; scenario list is a sample in the quick tier and the full consistent product in the thorough tier.", "4 C10"),
 "C15": ("exploration", "model-based runtime monitoring of the gxz binary: generated invocations compared with an executable model, plus xz-utils interop",
   "Generated argument vectors (plus directories that already hold a file with the temporary output's name) (short/bundled/long flags in any order, '--', multi-file runs with failing members, stdin/stdout) run in fresh directories; exit status, stdout and the resulting tree are compared with an executable model of the documented semantics (compressed results judged by decoding with the reference and liblzma); round trips for presets 0-9 x both formats check name, content and permission bits; gxz output is read by the xz command and xz-utils output (incl. multi-block, -T2) by gxz.",
   "The model is lenient where the statement is silent (-z); xz-utils 5.8.2 CLI and liblzma are optional second opinions (skipped sub-oracles are reported).", "4 C15"),
 "C11": ("exploration", "structure-aware mutation fuzzing with panic, result-range and stall monitors (logical and thread-CPU-time)",
   "A deterministic mutator derives about a million hostile inputs (quick) from valid seeds of the three formats, including CRC32-resealed container edits and chunk-header rewrites, a structural container mutator that rebuilds block headers / index / footer with extreme field values and re-seals every CRC32, and feeds them to the xz, xz-SingleStream, LZMA and LZMA2 readers; monitors: recovered panics, 0<=n<=len(p), logical stalls, and a watchdog on per-thread CPU time. The evidence lists the outcome histogram showing how deep the inputs got.",
   "Sampled inputs under the stated dictionary bound; a fatal runtime error (not recoverable) would end the process and is reported by the driver as a violation with the goroutine dump.", "4 C11"),
 "C12": ("exploration", "runtime monitoring of the multi-stream reader against the concatenation law over generated stream lists and paddings",
   "Files are assembled from a pool of valid streams (also chains whose members differ in dictionary size, lc/lp/pb, check and block structure) with every padding length 0..16 in every gap and at the end, leading padding and trailing non-zero bytes; xz.Reader with SingleStream off and on is compared byte for byte with the homomorphism law and the error rules of the statement; liblzma (LZMA_CONCATENATED) gives a second opinion on files expected valid.",
   "Pool and lists are samples; padding values 0..16 are enumerated per gap (full product for lists of up to 3 in the thorough tier).", "4 C12"),
 "C13": ("exploration", "trace monitoring of (len(p), n, err) sequences under generated Read-size schedules and source fragmentations",
   "Every Read result of the xz, LZMA and LZMA2 readers is recorded under buffer-length schedules (1, alternating 0/1, random, edge sizes, large) and source fragmentations (whole, 1 byte, short reads, data with EOF; with and without io.ByteReader); the monitor checks content equality, that EOF is never announced before all data was delivered, and that EOF is stable for three further reads.",
   "Sampled schedules; sources that return (0,nil) for non-empty buffers are outside the property and not generated.", "4 C13"),
 "C17": ("exploration", "runtime measurement of output sizes against the stated bounds",
   "Runs of one byte value, X||X with random X (|X| up to and including DictCap) and random data are written with xz.Writer and lzma.Writer2 under both match finders and varied lc/lp/pb, BufSize, BlockSize, DictCap; output length is compared with the bounds of the statement including the additive allowance (blocks counted by the independent parser).",
   "Sampled inputs/configurations; bounds taken verbatim from the property.", "4 C17"),
 "C09": ("fault_enumeration", "exhaustive fault enumeration at the I/O boundary (failing io.Writer / io.Reader) with result/panic monitors",
   "A dry run records the sink Write calls of each writer history (xz, .lzma plain and ByteWriter sinks, LZMA2 with flushes; ending in Close, Close); every call index x {once, forever} x {no bytes, partial write} is replayed and the monitor demands: no panic, some call returns an error, all-nil only with a complete valid stream in the sink. Every source offset x {once, forever} is replayed for the xz (incl. SingleStream), .lzma and LZMA2 readers over plain and ByteReader sources; the injected error must surface (errors.Is), never a clean end.",
   "Fault positions are exhaustive per case (byte-writer sinks thinned after call 3000); cases are a sample; internal/ref validates sinks when all calls returned nil.", "4 C09"),
 "C04": ("exploration", "fault injection on stored streams (bit flips, bursts, insertions, deletions, CRC-resealed field edits) with a content/verdict monitor",
   "For each seed stream every single-bit flip, a burst at every byte, an insertion and a deletion at every offset and every deletion between structural boundaries is read back (like io.ReadAll, one byte at a time, for field edits also with buffers ending at block ends; Read is called again after every error) and the monitor asserts 'never a clean end with different content'; ~50 classes of field-level edits built with an independent container serializer (CRC32s re-sealed) must each be reported as an error, as must every single-bit flip inside a CRC32-protected field with the CRC re-sealed unless the strict reference still accepts the file, also for check-less streams.",
   "Seeds are a sample (valid for internal/ref); modifications per seed are enumerated completely for the stated classes.", "4 C04"),
 "C05": ("fault_enumeration", "exhaustive truncation enumeration per stream with a verdict monitor",
   "Every proper prefix (every cut position) of each stream in the list - .xz (default and SingleStream), raw LZMA2, .lzma in three termination modes, multi-stream .xz - is opened and read (like io.ReadAll, one byte at a time, and with a buffer the decodable bytes fill exactly; Read is called again after the error and must not report a clean end); the monitor requires a non-EOF error (constructor errors count only if they are not io.EOF) and that delivered bytes are a prefix of the content; cuts on stream/padding boundaries of multi-stream files must decode cleanly.",
   "Exhaustive per stream (see stream_exhaustive in the evidence); the stream list is a sample.", "4 C05"),
 "C06": ("exploration", "runtime monitoring of classic-LZMA writer histories incl. the explicit-size contract, with a reference decoder judging the header",
   "Runs lzma.Writer over all 225 property codes x both matchers and random (config, termination mode, sink kind, data, partition) cases, round-trips through lzma.Reader, compares the 13-byte header with what the independent decoder finds encoded, and for every sized case drives a short-write and a surplus-write history.",
   "Sampled quantifier; internal/ref decides how many bytes / whether a marker are encoded.", "4 C06"),
 "C07": ("exploration", "differential runtime monitoring against liblzma and an independent reference, both directions",
   "Writer output (lc+lp<=4) is decoded by liblzma's alone decoder and the strict reference and its header fields are compared with configuration and observed distances; the reader is fed the frozen xz-utils corpus, fresh liblzma encodings and generated streams in all three termination modes (any lc/lp/pb, zero length included), each admitted only when the references agree.",
   "internal/ref + liblzma 5.4.1 as reference implementation; lc+lp>4 streams are arbitrated by internal/ref alone (liblzma refuses them).", "4 C07"),
 "C08": ("exploration", "sequential-history monitoring against a reference model (one-client linearizability degenerate case), prefix decoded at every Flush",
   "Generated call histories over Write/Flush/Close (and calls after Close) on lzma.Writer2; after every successful Flush the sink prefix must decode (reference decoder in open mode and lzma.Reader2) to exactly the bytes written so far, a Flush with nothing pending must emit nothing, and after Close Reader2, the strict reference and liblzma must all return everything written.",
   "Sampled histories/configs; internal/ref and liblzma as decoders.", "4 C08"),
 "C16": ("exploration", "exhaustive enumeration of chunk-kind sequences against a specification automaton; monitoring of emitted chunk headers",
   "All sequences over the chunk kinds up to length 5 (quick) / 7 (thorough), with and without end chunk, and all 256 control bytes in first and second position are realised as concrete streams by the reference encoder and fed to lzma.Reader2; accept/reject, delivered bytes and rejection point are compared with a two-flag specification automaton. Writer2 outputs under random histories are parsed and checked for legality and the chunk size limits.",
   "The automaton in legalPrefix() is the specification; legal realisations are arbitrated by internal/ref and liblzma before use.", "4 C16"),
 "C01": ("exploration", "runtime monitoring of write/read round trips at the API boundary over generated configurations, inputs and call partitions",
   "Drives the real xz.Writer through generated (config, data family, length, Write partition) cases with a recording sink, checks every call result, reads the sink back with xz.Reader, and issues Write/Close after Close. Held-on-what-was-observed: the evidence lists the distinct class tuples executed, chunk-kind sets and block counts seen.",
   "Sampled quantifier (inputs x configs x partitions); harness sink and Go runtime trusted.", "4 C01"),
 "C02": ("exploration", "differential runtime monitoring: every emitted stream judged by an independent strict reference decoder and liblzma",
   "Every stream the writer emits in the C01 workload (own draw) is parsed and decoded by internal/ref (strict, shares no code with the library) and by liblzma; the structural report (check id, block count and sizes, paddings, index, backward size, dictionary >= distances, chunk limits) is compared with the configuration.",
   "Trusted: internal/ref as the format definition, cross-checked at run time against liblzma 5.4.1 on the same streams (reference_agreement in the evidence); if liblzma cannot be linked that sub-oracle is reported skipped.", "4 C02"),
 "C03": ("exploration", "runtime monitoring of the reader on valid streams from a frozen xz-utils corpus, fresh liblzma encodings and a specification-driven generator",
   "Feeds xz.Reader valid streams from three independent sources, each admitted only when the reference decoders agree on its content, under several ReaderConfig.DictCap values around the declared dictionary size, and compares bytes and terminal status.",
   "Validity of generated streams rests on internal/ref plus liblzma agreement; rejected generator output is inconclusive, never a violation.", "4 C03"),
 # id: (category, technique, text, note, design_ref)
 "C18": ("exploration", "exhaustive runtime enumeration against a specification table",
   "Calls the exported EncodeDictCap for every capacity 1..2^32-1 and DecodeDictCap for all 256 codes of the library built from the working tree and compares each result with the 41-entry table of the file format; the emitted block-header byte is observed for sampled DictCaps. The function domain is enumerated completely in both tiers (exhaustive:true in the evidence names that part).",
   "Trusted: the transcription of the 41 representable sizes from the .xz specification; Go runtime.", "4 C18"),
}
NOT_YET = {}

# additions of the last round, appended to the level texts
EXTRA = {
 "C01": " Includes content built against the range coder's arithmetic (runs of up to 150 held-back bytes ended with or without a carry).",
 "C02": " Includes content built against the range coder's arithmetic (held-back runs with and without carry).",
 "C03": " Far-distance streams (every distance slot of a 16 MiB / 128 MiB window) with LZMA, uncompressed and mixed filler.",
 "C04": " Per-record index edits also on streams of more than 65536 blocks (records around 2^16 and the last ones).",
 "C06": " Includes content built against the range coder's arithmetic under each case's lc/lp/pb.",
 "C07": " Writer cases include content built against the range coder's arithmetic (held-back runs of 6..150 bytes, with and without carry; the longest run seen in the output is in the evidence).",
 "C08": " Special histories: 1200 tiny flushed messages, a 64 MiB dictionary with a match in every distance slot, a held-back run of the range coder swept across the end of the first chunk.",
 "C10": " Runs with 256..1024 (thorough 70000) arguments of which 0, 1, 256, 512 ... fail.",
 "C11": " A fixed list of inputs hostile by amount (48 MiB of padding, 400000 empty streams, 200000 one-byte blocks, 300000 one-byte chunks).",
 "C12": " Chains of 1200-1800 streams, total padding of MiB, single gaps of 3-48 MiB.",
 "C13": " Schedules with runs of 5..5000 zero-length reads between data reads.",
 "C14": " Connected instances in a separate mode (stacked instances, io.Pipe pipelines, hand-over with a stalled source or sink): same bytes as alone; a mutual block is decided by the Go runtime's deadlock detector in a plain (non -race) build of the same program.",
 "C15": " Runs with hundreds of arguments; files whose content is built against the encoder (held-back run swept across the end of the first 64 KiB chunk).",
 "C16": " The enumerated sequences are realised a second time (sampled) with bulky payloads so that mid-sequence resets follow a filled and wrapped dictionary.",
 "C17": " Plus X||X of 7-12 MiB, runs of 48-200 MiB and 24 MiB of noise.",
 "C18": " Block headers of two writers of which one works inside the other's sink Write (side activity, xz in xz).",
}

EXTRA2 = {
 "C01": " Writers in front of *bufio.Writer / *bytes.Buffer, caller's buffer overwritten after each Write, small streams also through an io.Pipe between writer and reader.",
 "C04": " Modified streams are also read from the concrete source types of production (buffered readers of three sizes over a source delivering in pieces, a real file, io.Pipe with and without zero-length writes); read buffers are windows with canaries behind them.",
 "C05": " Prefixes are also read from buffered readers, a real file and an io.Pipe (every cut near a stream or padding boundary, elsewhere every fifth).",
 "C06": " Writers in front of *bufio.Writer (small buffers included) and *bytes.Buffer; caller's buffer overwritten after each Write.",
 "C08": " Every ninth history and the flush-at-2-MiB histories write into a real *os.File.",
 "C11": " Sources that return (0, nil) now and then; read buffers are windows with canaries behind them.",
 "C13": " Further source kinds: a real file, buffered readers of three sizes, io.Pipe, bytes.Buffer, strings.Reader; read buffers are windows of larger arrays with canaries.",
 "C14": " Concurrent readers read into guarded windows and into neighbouring windows of one arena.",
 "C15": " FIFO without writer and /dev/null among the arguments (a blocked run is recognised by the process state in open(2), read from /proc).",
 "C17": " Runs and X||X also through the classic lzma.Writer with capacities off the 2^n grid.",
}

EXTRA3 = {
 "C01": " Fixed cases: several stored chunks in a row between LZMA chunks; X||X at capacities next to the representable dictionary sizes.",
 "C05": " The shortest .lzma streams of every termination mode are among the streams.",
 "C06": " Run-rich data over many revolutions of a small ring with the hash-table matcher.",
 "C07": " Generated end markers carry any length field 2..273.",
 "C09": " Third fault shape: the sink accepts all bytes and returns the error with the full count.",
 "C10": " gxz is also started by its other names (xzcat, lzcat, unxz, unlzma, lzma ...); archive-like input with several stored chunks in a row.",
 "C11": " Seeds with an end marker inside an LZMA2 chunk; every seed is also fed unmodified.",
 "C12": " Chain members realised from reset-kind chunk sequences behind uncompressed chunks.",
 "C13": " Streams with an uncompressed chunk longer than the reader's dictionary between compressed chunks.",
 "C14": " Concurrent readers of generator-made streams (state resets, property changes) with shared properties.",
 "C17": " X||X of 2 MiB through the classic writer with the binary tree.",
 "C18": " Look-ahead buffer larger than the dictionary, judged by the strict reference decoder.",
}

def main():
    props = [json.loads(l) for l in open(os.path.join(V, "properties.jsonl"))]
    checks = []
    na = []
    for p in props:
        i = p["id"]
        if i in CHECKS:
            cat, tech, text, note, ref = CHECKS[i]
            checks.append({
                "property_id": i,
                "quick_cmd": f"./check {i} quick",
                "thorough_cmd": f"./check {i} thorough",
                "evidence_file": f"/verif/evidence/{i}.json",
                "replay_cmd_template": f"./check {i} --replay {{path}}",
                "engine": "vcheck",
                "level_claimed": {"category": cat, "text": text + EXTRA.get(i, "") + EXTRA2.get(i, "") + EXTRA3.get(i, ""), "design_ref": "DESIGN.md section " + ref},
                "level_note": note,
                "technique": tech,
            })
        else:
            na.append({"property_id": i, "reason": NOT_YET.get(i, "check not built yet (under construction in this round); not claimed until its monitor exists and is silent on the unchanged tree")})
    m = {
        "version": 1,
        "setup_cmd": "./setup.sh",
        "hooks": {
            "guard": "verif",
            "enable": "no source hooks: every observation is made at a public boundary (API results, sink bytes, process exit status, directory contents, ptrace-observed syscalls); the build tag 'verif' is reserved and unused",
            "baseline_off_cmd": "cd /repo && GOFLAGS=-mod=mod GOPROXY=off GOSUMDB=off go test -vet=off -count=1 ./...",
            "source_commits": [],
            "add_only": True,
        },
        "engines": [
            {"name": "vrace", "path": "/verif/cmd/vrace", "serves_properties": ["C14"], "kind_free_text": "concurrent workload built with -race; run by vcheck C14 as child processes"},
            {"name": "sysstep", "path": "/verif/tools/sysstep.c", "serves_properties": ["C10", "C15"], "kind_free_text": "ptrace syscall stepper (C): record / kill-before / kill-after / fail-with-errno at the N-th file-system syscall of the traced gxz process"},
            {"name": "vcheck", "path": "/verif/cmd/vcheck", "serves_properties": sorted(CHECKS),
             "kind_free_text": "Go harness built per run against /repo's working tree (replace directive); boundary monitors, fault-injecting sinks/sources, independent reference decoder/encoder, evidence writer"},
        ],
        "checks": checks,
        "not_applicable": na,
        "notes": "Technique family: runtime monitoring and sanitizers. See DESIGN.md. known_findings.jsonl lists repaired (fixed:) and recorded defects.",
    }
    json.dump(m, open(os.path.join(V, "MANIFEST.json"), "w"), indent=1)
    print("checks:", len(checks), "not_applicable:", len(na))

main()
