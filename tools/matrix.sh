#!/bin/bash
# tools/matrix.sh <tier> <outfile> [mutant ids...] : runs every check against every seeded mutant
# (scratch worktrees, never /repo) and appends "mutant check CAUGHT|missed" lines.
TIER=$1; OUT=$2; shift 2
V=$(cd "$(dirname "$0")/.." && pwd)
MUTS="$@"; [ -z "$MUTS" ] && MUTS=$(cd $V/seeded && ls -d C*)
CHECKS="C01 C02 C03 C04 C05 C06 C07 C08 C09 C10 C11 C12 C13 C14 C15 C16 C17 C18"
for m in $MUTS; do
  MT=${MT_DIR:-/tmp/mt}; D=$MT/$m; rm -rf $D; mkdir -p $MT
  git -C /repo worktree add -q --detach $D HEAD || continue
  if ! git -C $D apply $V/seeded/$m/patch.diff; then echo "$m ALL patch-does-not-apply" >> $OUT; git -C /repo worktree remove --force $D; continue; fi
  for c in ${ONLY:-$CHECKS}; do
    o=$(VERIF_REPO=$D $V/check $c $TIER 2>&1); rc=$?
    if echo "$o" | grep -q '^VIOLATION'; then echo "$m $c CAUGHT $(echo "$o" | grep -m1 signature | sed 's/ *signature: //' | cut -c1-100)" >> $OUT
    else echo "$m $c missed rc=$rc" >> $OUT; fi
  done
  git -C /repo worktree remove --force $D
  rm -f $V/.work/bin/*_$(echo $D | tr / _) $V/.work/go.$(echo $D | tr / _).*
done
echo DONE >> $OUT
