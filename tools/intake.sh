#!/bin/bash
# tools/intake.sh <id> [round]: takes a sub-agent's hand-in from /tmp/sa/out/<id>, confirms it in a scratch
# worktree (tools/confirm_mutant.sh), stores it under seeded/<id>, runs the quick tier of the
# property's own check against it and removes the agent's worktree.
V=$(cd "$(dirname "$0")/.." && pwd)
id=$1; round=${2:-4}; prop=${id:0:3}
src=/tmp/sa/out/$id
[ -f $src/patch.diff ] && [ -f $src/demo_test.go ] || { echo "$id: hand-in incomplete"; exit 2; }
mkdir -p $V/seeded/$id
cp $src/patch.diff $src/demo_test.go $V/seeded/$id/
[ -f $src/notes.md ] && cp $src/notes.md $V/seeded/$id/
conf=$(RACE=${RACE:-} $V/tools/confirm_mutant.sh $V/seeded/$id 2>&1 | tail -1)
echo "$conf"
pkg=$(grep -m1 '^package ' $src/demo_test.go | awk '{print $2}')
case "$pkg" in xz|xz_test) sub=. ;; lzma|lzma_test) sub=lzma ;; main) sub=cmd/gxz ;; *) sub=. ;; esac
python3 - "$id" "$prop" "$round" "$sub" "$conf" > $V/seeded/$id/meta.json <<'P'
import json,sys
id,prop,rnd,sub,conf=sys.argv[1:6]
print(json.dumps({"id":id,"breaks_property":prop,"round":int(rnd),
 "origin":"written by an independent sub-agent given only the text of property %s (title, statement, quantifier), a focus hint naming the places earlier rounds had changed, and its own scratch worktree of /repo; it saw nothing of /verif"%prop,
 "demo":"demo_test.go (copy into %s of the repository as a _test.go file)"%sub,"demo_dir":sub,
 "needs_to_manifest":"see notes.md",
 "confirmed":"tools/confirm_mutant.sh seeded/%s : %s"%(id,conf)},indent=1))
P
git -C /repo worktree remove --force /tmp/sa/$id 2>/dev/null
$V/tools/muttest.sh $V/seeded/$id/patch.diff quick $prop
