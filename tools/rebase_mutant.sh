#!/bin/bash
# tools/rebase_mutant.sh <id>: re-creates seeded/<id>/patch.diff against /repo HEAD after a fix: commit
# touched the same lines, by a 3-way apply that keeps both sides of every conflict block
# (only valid when the two sides are independent additions; the result is confirmed afterwards
# with tools/confirm_mutant.sh).
id=$1; D=/tmp/rb-$id; rm -rf $D
git -C /repo worktree add -q --detach $D HEAD || exit 2
cd $D
git apply --3way /verif/seeded/$id/patch.diff 2>/dev/null
for f in $(git diff --name-only --diff-filter=U); do
  sed -i -e '/^<<<<<<< ours$/d' -e '/^=======$/d' -e '/^>>>>>>> theirs$/d' $f
  git add $f
done
git reset -q
export GOFLAGS=-mod=mod GOPROXY=off GOSUMDB=off GOTOOLCHAIN=local
if go build ./... ; then cp /verif/seeded/$id/patch.diff /verif/seeded/$id/patch.orig.diff 2>/dev/null; git diff > /verif/seeded/$id/patch.diff; echo "$id rebased ($(git diff --stat | tail -1))"; else echo "$id: does not build after keep-both merge"; fi
cd /; git -C /repo worktree remove --force $D
